"""Reference encoders / decoders for C07, written from the FORMATS (not from RELIC's code):

* integers: big-endian, fixed length, left zero padded; digit vectors little-endian; positional notation in radix
  2..64 over a published 64-symbol alphabet;
* prime-field elements: big-endian integer < p in exactly L = ceil(bits/8) bytes; extension-field elements: the
  concatenation of the base-field coefficients in tower order; norm-1 Fp2 elements compressed to (a0, parity of a1);
  cyclotomic Fp12 elements compressed to four of the six Fp2 coefficients (Karabina, "Squaring in cyclotomic
  subgroups", Math. Comp. 2013, Theorem 3.1/Corollary 3.2);
* points: SEC 1 v2 section 2.3.3/2.3.4 octet strings: 00 (identity, one octet), 02/03 || X (compressed), 04 || X || Y.
  y~ for prime curves is y mod 2 (SEC 1); pairing-friendly curves use the sign of the IETF pairing-friendly-curves
  draft (appendix "ZCash serialization"): sign(y) = 1 iff y > (p-1)/2, and for Fp2: the sign of y1 unless y1 = 0,
  then the sign of y0. Binary curves: y~ = rightmost bit of y/x (0 when x = 0). Twisted Edwards points in the
  library's SEC1-like layout: tag || Y [|| X], y~ := x mod 2, the neutral element as the single octet 00.

A decoder returns (True, object) or (False, reason). Everything needed for the range / square-root / curve-equation
tests is reference arithmetic (engine.ref.fp / ec / ext plus the small GF(2^m) and Edwards classes below)."""
from . import fp as rfp

# ----------------------------------------------------------------------------------------------- integers

ALPHABET64 = "0123456789ABCDEFGHIJKLMNOPQRSTUVWXYZabcdefghijklmnopqrstuvwxyz+/"


def int_size_bin(v):
    return (abs(v).bit_length() + 7) // 8


def int_enc(v, length):
    """big-endian magnitude, left zero padded to length (None if it does not fit)"""
    if int_size_bin(v) > length:
        return None
    return abs(v).to_bytes(length, "big")


def int_dec(b):
    return int.from_bytes(b, "big")


def to_radix(v, radix, alphabet=ALPHABET64):
    """positional notation, most significant digit first, '-' for negative values, '0' for zero"""
    assert 2 <= radix <= 64
    if v == 0:
        return alphabet[0]
    m, out = abs(v), []
    while m:
        m, d = divmod(m, radix)
        out.append(alphabet[d])
    return ("-" if v < 0 else "") + "".join(reversed(out))


def from_radix_prefix(s, radix, alphabet=ALPHABET64, fold=None):
    """value of the longest valid prefix of s: optional leading '-', then digits below the radix. Letters are
    case-folded to upper case when fold (default: radix < 36, where no lower-case symbol can be a digit).
    Returns (value, number of characters consumed)."""
    if fold is None:
        fold = radix < 36
    i, neg = 0, False
    if s[:1] == "-":
        neg, i = True, 1
    v = 0
    while i < len(s):
        ch = s[i]
        if ch == "\0":
            break
        if fold and "a" <= ch <= "z":
            ch = ch.upper()
        d = alphabet.find(ch)
        if d < 0 or d >= radix:
            break
        v = v * radix + d
        i += 1
    return (-v if neg else v), i


# ----------------------------------------------------------------------------------------------- prime fields

def fp_enc(v, p, L):
    assert 0 <= v < p
    return v.to_bytes(L, "big")


def fp_dec(b, p, L):
    if len(b) != L:
        return False, "length"
    v = int.from_bytes(b, "big")
    if v >= p:
        return False, "range"
    return True, v


def flat_enc(coeffs, p, L):
    return b"".join(fp_enc(c, p, L) for c in coeffs)


def flat_dec(b, n, p, L):
    if len(b) != n * L:
        return False, "length"
    out = []
    for i in range(n):
        ok, v = fp_dec(b[i * L:(i + 1) * L], p, L)
        if not ok:
            return False, v
        out.append(v)
    return True, out


def sign_parity(y, p):
    return y & 1


def sign_half(y, p):
    return 1 if y > (p - 1) // 2 else 0


def sign_half_fp2(y, p):
    return sign_half(y[1], p) if y[1] % p else sign_half(y[0], p)


# -- Fp2 elements of norm 1 (a0^2 - qnr*a1^2 = 1): a0 || one octet holding the parity of a1

def fp2_is_unitary(a, p, qnr):
    return (a[0] * a[0] - qnr * a[1] * a[1]) % p == 1


def fp2_pack_enc(a, p, L, qnr, sign=sign_parity):
    assert fp2_is_unitary(a, p, qnr)
    return fp_enc(a[0], p, L) + bytes([sign(a[1], p)])


def fp2_pack_dec(b, p, L, qnr, sign=sign_parity):
    if len(b) != L + 1:
        return False, "length"
    ok, a0 = fp_dec(b[:L], p, L)
    if not ok:
        return False, a0
    if b[L] > 1:
        return False, "tag"
    # a1^2 = (a0^2 - 1) / qnr
    t = (a0 * a0 - 1) * pow(qnr % p, -1, p) % p
    a1 = rfp.sqrt_mod(t, p)
    if a1 is None:
        return False, "nosqrt"
    if sign(a1, p) != b[L]:
        a1 = (-a1) % p
    if sign(a1, p) != b[L]:
        return False, "noncanonical"          # a1 = 0 with the sign octet set
    return True, (a0, a1)


# -- cyclotomic subgroup of Fp12 = Fp2[w]/(w^6 - xi): coefficients g0..g5 in Karabina's notation are those of
#    w^0, w^3, w^1, w^4, w^2, w^5; with the tower Fp6 = Fp2[v]/(v^3 - xi), Fp12 = Fp6[w]/(w^2 - v) an element is
#    ((a00, a01, a02), (a10, a11, a12)) = a00 + a10 w + a01 w^2 + a11 w^3 + a02 w^4 + a12 w^5, hence
#    g0 = a00, g1 = a11, g2 = a10, g3 = a02, g4 = a01, g5 = a12; the compressed form is (g4, g3, g2, g5) in memory
#    order a01, a02, a10, a12.

class Cyc12:
    def __init__(self, T):
        """T: tower dict from engine.ref.ext.build_tower"""
        self.F2, self.F6, self.F12 = T[2], T[6], T[12]
        self.xi = T[6].nr
        self.p = T[2].p
        F2 = self.F2
        # Frobenius p^2 acts on w^k by the 6th root of unity xi^(k (p^2-1)/6) (an element of Fp, computed by plain
        # exponentiation) and trivially on the Fp2 coefficients
        g = F2.pow(self.xi, (self.p * self.p - 1) // 6)
        self.gam = [F2.pow(g, k) for k in range(6)]

    def coeffs(self, a):
        (a00, a01, a02), (a10, a11, a12) = a
        return [a00, a10, a01, a11, a02, a12]           # by power of w

    def from_coeffs(self, c):
        return ((c[0], c[2], c[4]), (c[1], c[3], c[5]))

    def frob2(self, a, times=1):
        c = self.coeffs(a)
        F2 = self.F2
        for _ in range(times):
            c = [F2.mul(c[k], self.gam[k]) for k in range(6)]
        return self.from_coeffs(c)

    def conj6(self, a):
        """a^(p^6): negates the odd powers of w"""
        return (a[0], self.F6.neg(a[1]))

    def is_cyclotomic(self, a):
        """a != 0 and a^(p^4 - p^2 + 1) = 1"""
        F12 = self.F12
        if F12.is_zero(a):
            return False
        return F12.eq(F12.mul(self.frob2(a, 2), a), self.frob2(a))

    def to_cyclotomic(self, x):
        """x^((p^6 - 1)(p^2 + 1)) for x != 0"""
        F12 = self.F12
        y = F12.mul(self.conj6(x), F12.inv(x))
        return F12.mul(self.frob2(y), y)

    def compress(self, a):
        return [a[0][1], a[0][2], a[1][0], a[1][2]]

    def decompress(self, comp):
        """the unique cyclotomic completion of (g4, g3, g2, g5), or None"""
        F2 = self.F2
        g4, g3, g2, g5 = comp
        xi = self.xi
        two, three, four = F2.from_int(2), F2.from_int(3), F2.from_int(4)
        if not F2.is_zero(g2):
            num = F2.sub(F2.add(F2.mul(xi, F2.mul(g5, g5)), F2.mul(three, F2.mul(g4, g4))), F2.mul(two, g3))
            g1 = F2.mul(num, F2.inv(F2.mul(four, g2)))
            t = F2.sub(F2.add(F2.mul(two, F2.mul(g1, g1)), F2.mul(g2, g5)), F2.mul(three, F2.mul(g3, g4)))
        elif not F2.is_zero(g3):
            g1 = F2.mul(F2.mul(two, F2.mul(g4, g5)), F2.inv(g3))
            t = F2.sub(F2.mul(two, F2.mul(g1, g1)), F2.mul(three, F2.mul(g3, g4)))
        else:
            # g2 = g3 = 0: the cyclotomic elements of this shape are found by trying g1 = 0 (covers 1 itself)
            g1 = F2.zero
            t = F2.zero
        g0 = F2.add(F2.mul(xi, t), F2.one)
        a = ((g0, g4, g3), (g2, g1, g5))
        return a if self.is_cyclotomic(a) else None


def fp12_pack_enc(cyc, a, p, L):
    return flat_enc([c for e in cyc.compress(a) for c in e], p, L)


def fp12_pack_dec(cyc, b, p, L):
    ok, v = flat_dec(b, 8, p, L)
    if not ok:
        return False, v
    comp = [(v[0], v[1]), (v[2], v[3]), (v[4], v[5]), (v[6], v[7])]
    a = cyc.decompress(comp)
    if a is None:
        return False, "notcyclotomic"
    return True, a


# ----------------------------------------------------------------------------------------------- prime curves

class WeierCodec:
    """SEC1 octet strings for y^2 = x^3 + ax + b over Fp (deg 1) or Fp2 (deg 2, coefficient order c0 || c1)."""

    def __init__(self, E, p, L, deg, sign):
        self.E, self.p, self.L, self.deg, self.sign = E, p, L, deg, sign
        self.xl = deg * L

    def _fe(self, v):
        return fp_enc(v, self.p, self.L) if self.deg == 1 else flat_enc(v, self.p, self.L)

    def _fd(self, b):
        if self.deg == 1:
            return fp_dec(b, self.p, self.L)
        ok, v = flat_dec(b, self.deg, self.p, self.L)
        return (ok, tuple(v)) if ok else (ok, v)

    def size(self, P, pack):
        if P is None:
            return 1
        return 1 + self.xl * (1 if pack else 2)

    def enc(self, P, pack):
        if P is None:
            return b"\x00"
        if pack:
            return bytes([2 | self.sign(P[1], self.p)]) + self._fe(P[0])
        return b"\x04" + self._fe(P[0]) + self._fe(P[1])

    def dec(self, b):
        K = self.E.K
        if len(b) == 1:
            return (True, None) if b[0] == 0 else (False, "tag")
        if len(b) == 1 + self.xl:
            if b[0] not in (2, 3):
                return False, "tag"
            ok, x = self._fd(b[1:])
            if not ok:
                return False, x
            y = K.sqrt(self.E.rhs(x))
            if y is None:
                return False, "nosqrt"
            if self.sign(y, self.p) != (b[0] & 1):
                y = K.neg(y)
            if self.sign(y, self.p) != (b[0] & 1):
                return False, "noncanonical"      # y = 0 with tag 03
            return True, (x, y)
        if len(b) == 1 + 2 * self.xl:
            if b[0] != 4:
                return False, "tag"
            ok, x = self._fd(b[1:1 + self.xl])
            if not ok:
                return False, x
            ok, y = self._fd(b[1 + self.xl:])
            if not ok:
                return False, y
            if not self.E.on_curve((x, y)):
                return False, "offcurve"
            return True, (x, y)
        return False, "length"


# ----------------------------------------------------------------------------------------------- GF(2^m)

class GF2m:
    """Polynomial basis, elements are Python ints."""

    def __init__(self, f):
        self.f = f
        self.m = f.bit_length() - 1
        self.mask = (1 << self.m) - 1
        self._sq = [sum(((i >> k) & 1) << (2 * k) for k in range(8)) for i in range(256)]
        low = f ^ (1 << self.m)
        self._low = [k for k in range(low.bit_length()) if (low >> k) & 1]
        self._trmask = None
        self._htr = None

    def reduce_slow(self, a):
        f, m = self.f, self.m
        while a.bit_length() > m:
            a ^= f << (a.bit_length() - 1 - m)
        return a

    def reduce(self, a):
        """x^m = (low terms of f): fold the part above x^m down until nothing is left"""
        m, mask = self.m, self.mask
        while a >> m:
            hi = a >> m
            a &= mask
            for k in self._low:
                a ^= hi << k
        return a

    def mul(self, a, b):
        r = 0
        while b:
            if b & 1:
                r ^= a
            a <<= 1
            b >>= 1
        return self.reduce(r)

    def sqr(self, a):
        r, sh = 0, 0
        while a:
            r |= self._sq[a & 0xFF] << sh
            a >>= 8
            sh += 16
        return self.reduce(r)

    def inv(self, a):
        """extended Euclid on polynomials"""
        if a == 0:
            raise ZeroDivisionError
        u, v, g1, g2 = a, self.f, 1, 0
        while u != 1:
            j = u.bit_length() - v.bit_length()
            if j < 0:
                u, v, g1, g2, j = v, u, g2, g1, -j
            u ^= v << j
            g1 ^= g2 << j
        return self.reduce(g1)

    def sqrt(self, a):
        for _ in range(self.m - 1):
            a = self.sqr(a)
        return a

    def trace_def(self, a):
        """Tr(a) = a + a^2 + ... + a^(2^(m-1)) (the definition)"""
        t = a
        for _ in range(self.m - 1):
            t = self.sqr(t) ^ a
        return t

    def half_trace_def(self, c):
        h = c
        for _ in range((self.m - 1) // 2):
            h = self.sqr(self.sqr(h)) ^ c
        return h

    def _tables(self):
        # both maps are GF(2)-linear: tabulate them on the basis x^i once
        if self._trmask is None:
            tm, ht = 0, []
            for i in range(self.m):
                tm |= self.trace_def(1 << i) << i
                ht.append(self.half_trace_def(1 << i) if self.m % 2 else 0)
            self._trmask, self._htr = tm, ht

    def trace(self, a):
        self._tables()
        return bin(a & self._trmask).count("1") & 1

    def solve_quadratic(self, c):
        """z with z^2 + z = c (m odd: half-trace), or None when Tr(c) = 1"""
        assert self.m % 2 == 1
        if self.trace(c) != 0:
            return None
        h, i = 0, 0
        while c:
            if c & 1:
                h ^= self._htr[i]
            c >>= 1
            i += 1
        return h


class BinCurve:
    """y^2 + xy = x^3 + a x^2 + b over GF(2^m); points None or (x, y)."""

    def __init__(self, K, a, b):
        self.K, self.a, self.b = K, a, b

    def on_curve(self, P):
        if P is None:
            return True
        K = self.K
        x, y = P
        x2 = K.sqr(x)
        return K.sqr(y) ^ K.mul(x, y) == K.mul(x2, x) ^ K.mul(self.a, x2) ^ self.b

    def neg(self, P):
        return None if P is None else (P[0], P[0] ^ P[1])

    def add(self, P, Q):
        K = self.K
        if P is None:
            return Q
        if Q is None:
            return P
        x1, y1 = P
        x2, y2 = Q
        if x1 == x2:
            if y1 != y2 or x1 == 0:
                return None
            l = x1 ^ K.mul(y1, K.inv(x1))
            x3 = K.sqr(l) ^ l ^ self.a
            y3 = K.sqr(x1) ^ K.mul(l ^ 1, x3)
            return (x3, y3)
        l = K.mul(y1 ^ y2, K.inv(x1 ^ x2))
        x3 = K.sqr(l) ^ l ^ x1 ^ x2 ^ self.a
        y3 = K.mul(l, x1 ^ x3) ^ x3 ^ y1
        return (x3, y3)

    def lift_x(self, x, ybit):
        """SEC1 2.3.4: the point with this x and y~ = ybit, or None"""
        K = self.K
        if x == 0:
            return (0, K.sqrt(self.b)) if ybit == 0 else None
        beta = x ^ self.a ^ K.mul(self.b, K.inv(K.sqr(x)))
        z = K.solve_quadratic(beta)
        if z is None:
            return None
        if (z & 1) != ybit:
            z ^= 1
        return (x, K.mul(x, z))

    def ybit(self, P):
        x, y = P
        if x == 0:
            return 0
        return self.K.mul(y, self.K.inv(x)) & 1


class BinCodec:
    def __init__(self, E, L):
        self.E, self.L, self.m = E, L, E.K.m

    def fe(self, v):
        return v.to_bytes(self.L, "big")

    def fd(self, b):
        if len(b) != self.L:
            return False, "length"
        v = int.from_bytes(b, "big")
        if v >> self.m:
            return False, "range"
        return True, v

    def size(self, P, pack):
        return 1 if P is None else 1 + self.L * (1 if pack else 2)

    def enc(self, P, pack):
        if P is None:
            return b"\x00"
        if pack:
            return bytes([2 | self.E.ybit(P)]) + self.fe(P[0])
        return b"\x04" + self.fe(P[0]) + self.fe(P[1])

    def dec(self, b):
        L = self.L
        if len(b) == 1:
            return (True, None) if b[0] == 0 else (False, "tag")
        if len(b) == 1 + L:
            if b[0] not in (2, 3):
                return False, "tag"
            ok, x = self.fd(b[1:])
            if not ok:
                return False, x
            P = self.E.lift_x(x, b[0] & 1)
            if P is None:
                return False, "nosqrt"
            return True, P
        if len(b) == 1 + 2 * L:
            if b[0] != 4:
                return False, "tag"
            ok, x = self.fd(b[1:1 + L])
            if not ok:
                return False, x
            ok, y = self.fd(b[1 + L:])
            if not ok:
                return False, y
            if not self.E.on_curve((x, y)):
                return False, "offcurve"
            return True, (x, y)
        return False, "length"


# ----------------------------------------------------------------------------------------------- twisted Edwards

class EdCurve:
    """a x^2 + y^2 = 1 + d x^2 y^2 over Fp; neutral element (0, 1). Points are (x, y) tuples (never None)."""

    def __init__(self, p, a, d):
        self.p, self.a, self.d = p, a % p, d % p

    def on_curve(self, P):
        p = self.p
        x, y = P
        return (self.a * x * x + y * y - 1 - self.d * x * x * y * y) % p == 0

    def add(self, P, Q):
        p = self.p
        x1, y1 = P
        x2, y2 = Q
        t = self.d * x1 * x2 * y1 * y2 % p
        x3 = (x1 * y2 + y1 * x2) * pow(1 + t, -1, p) % p
        y3 = (y1 * y2 - self.a * x1 * x2) * pow(1 - t, -1, p) % p
        return (x3, y3)

    def neg(self, P):
        return ((-P[0]) % self.p, P[1])

    def mul(self, k, P):
        R = (0, 1)
        if k < 0:
            k, P = -k, self.neg(P)
        for i in range(k.bit_length() - 1, -1, -1):
            R = self.add(R, R)
            if (k >> i) & 1:
                R = self.add(R, P)
        return R

    def lift_y(self, y, xbit, sign=sign_parity):
        """x^2 = (y^2 - 1) / (d y^2 - a)"""
        p = self.p
        den = (self.d * y * y - self.a) % p
        if den == 0:
            return None
        x = rfp.sqrt_mod((y * y - 1) * pow(den, -1, p) % p, p)
        if x is None:
            return None
        if sign(x, p) != xbit:
            x = (-x) % p
        if sign(x, p) != xbit:
            return None
        return (x, y)


class EdCodec:
    NEUTRAL = (0, 1)

    def __init__(self, E, L, sign=sign_parity):
        self.E, self.L, self.p, self.sign = E, L, E.p, sign

    def size(self, P, pack):
        return 1 if P == self.NEUTRAL else 1 + self.L * (1 if pack else 2)

    def enc(self, P, pack):
        if P == self.NEUTRAL:
            return b"\x00"
        if pack:
            return bytes([2 | self.sign(P[0], self.p)]) + fp_enc(P[1], self.p, self.L)
        return b"\x04" + fp_enc(P[1], self.p, self.L) + fp_enc(P[0], self.p, self.L)

    def dec(self, b):
        """accepts exactly the canonical strings: the neutral element only as 00"""
        L, p = self.L, self.p
        if len(b) == 1:
            return (True, self.NEUTRAL) if b[0] == 0 else (False, "tag")
        if len(b) == 1 + L:
            if b[0] not in (2, 3):
                return False, "tag"
            ok, y = fp_dec(b[1:], p, L)
            if not ok:
                return False, y
            P = self.E.lift_y(y, b[0] & 1, self.sign)
            if P is None:
                return False, "nosqrt"
        elif len(b) == 1 + 2 * L:
            if b[0] != 4:
                return False, "tag"
            ok, y = fp_dec(b[1:1 + L], p, L)
            if not ok:
                return False, y
            ok, x = fp_dec(b[1 + L:], p, L)
            if not ok:
                return False, x
            P = (x, y)
            if not self.E.on_curve(P):
                return False, "offcurve"
        else:
            return False, "length"
        if P == self.NEUTRAL:
            return False, "noncanonical"
        return True, P


# ----------------------------------------------------------------------------------------------- cube roots

def cube_root_ext(F, a):
    """A cube root of a in the finite field F (engine.ref.ext.Ext or compatible: pow, mul, eq, one, q, _candidates)
    or None. Adleman-Manders-Miller specialised to 3 with a brute-force logarithm in the (small) 3-Sylow subgroup."""
    if F.is_zero(a):
        return F.zero
    q1 = F.q - 1
    if q1 % 3 != 0:
        return F.pow(a, pow(3, -1, q1))
    if not F.eq(F.pow(a, q1 // 3), F.one):
        return None
    s, t = 0, q1
    while t % 3 == 0:
        s, t = s + 1, t // 3
    if 3 ** s > 20000:
        return None
    k = pow(3, -1, t)
    r = F.pow(a, k)                       # r^3 = a * a^(3k-1), the second factor lies in the 3-Sylow subgroup
    e = F.pow(a, 3 * k - 1)
    g = None
    for cand in F._candidates():
        if not F.is_zero(cand) and not F.eq(F.pow(cand, q1 // 3), F.one):
            g = F.pow(cand, t)            # generator of the 3-Sylow subgroup
            break
    # find j with g^j = e (j is a multiple of 3 because e is a cube), then root = r * g^(-j/3)
    x, j = F.one, 0
    while not F.eq(x, e):
        x = F.mul(x, g)
        j += 1
        if j > 3 ** s:
            return None
    if j % 3:
        return None
    root = F.mul(r, F.pow(g, (3 ** s - j // 3) % (3 ** s)))
    return root if F.eq(F.pow(root, 3), a) else None


# ----------------------------------------------------------------------------------------------- self-test

def self_test():
    from . import ec as rec
    from . import ext as rext
    # integers and text
    assert int_enc(0x1234, 4) == b"\x00\x00\x12\x34" and int_enc(0x1234, 1) is None and int_size_bin(0) == 0
    assert to_radix(255, 16) == "FF" and to_radix(-255, 2) == "-11111111" and to_radix(0, 7) == "0"
    assert to_radix(63, 64) == "/" and to_radix(64 * 62 + 36, 64) == "+a"
    assert from_radix_prefix("ff", 16) == (255, 2) and from_radix_prefix("-7fz", 16) == (-0x7F, 3)
    assert from_radix_prefix("az", 36) == (0, 0) and from_radix_prefix("AZ", 36) == (10 * 36 + 35, 2)
    assert from_radix_prefix("12\x0034", 10) == (12, 2) and from_radix_prefix("-", 10) == (0, 1)
    for r in range(2, 65):
        for v in (0, 1, -1, r, r - 1, r ** 5 + 3, -(r ** 9)):
            assert from_radix_prefix(to_radix(v, r), r)[0] == v
    assert int("zz", 36) == from_radix_prefix("ZZ", 36)[0] and to_radix(12345678901234567890, 10) == "12345678901234567890"
    # SEC 2: secp256r1 / secp256k1 base points in compressed form
    p = 0xFFFFFFFF00000001000000000000000000000000FFFFFFFFFFFFFFFFFFFFFFFF
    E = rec.Curve(rec.PrimeField(p), p - 3, 0x5AC635D8AA3A93E7B3EBBD55769886BC651D06B0CC53B0F63BCE3C3E27D2604B)
    G = (0x6B17D1F2E12C4247F8BCE6E563A440F277037D812DEB33A0F4A13945D898C296,
         0x4FE342E2FE1A7F9B8EE7EB4A7C0F9E162BCE33576B315ECECBB6406837BF51F5)
    C = WeierCodec(E, p, 32, 1, sign_parity)
    comp = bytes.fromhex("036B17D1F2E12C4247F8BCE6E563A440F277037D812DEB33A0F4A13945D898C296")
    assert C.enc(G, True) == comp and C.dec(comp) == (True, G) and C.dec(C.enc(G, False)) == (True, G)
    assert C.dec(b"\x00") == (True, None) and C.dec(b"\x01")[0] is False and C.dec(b"")[0] is False
    assert C.dec(b"\x04" + comp[1:] + bytes(32)) == (False, "offcurve")
    assert C.dec(b"\x02" + p.to_bytes(32, "big")) == (False, "range") and C.dec(b"\x05" + comp[1:]) == (False, "tag")
    assert C.dec(b"\x02" + (5).to_bytes(32, "big"))[0] in (True, False)
    pk = 2 ** 256 - 2 ** 32 - 977
    Ek = rec.Curve(rec.PrimeField(pk), 0, 7)
    Ck = WeierCodec(Ek, pk, 32, 1, sign_parity)
    ok, Gk = Ck.dec(bytes.fromhex("0279BE667EF9DCBBAC55A06295CE870B07029BFCDB2DCE28D959F2815B16F81798"))
    assert ok and Gk[1] == 0x483ADA7726A3C4655DA4FBFC0E1108A8FD17B448A68554199C47D08FFB10D4B8
    # sign convention of the pairing-friendly-curves draft: BLS12-381 G1 generator has the "smaller" y
    pb = 0x1A0111EA397FE69A4B1BA7B6434BACD764774B84F38512BF6730D2A0F6B0F6241EABFFFEB153FFFFB9FEFFFFFFFFAAAB
    gy = 0x08B3F481E3AAA0F1A09E30ED741D8AE4FCF5E095D5D00AF600DB18CB2C04B3EDD03CC744A2888AE40CAA232946C5E7E1
    assert sign_half(gy, pb) == 0 and sign_half(pb - gy, pb) == 1 and sign_half((pb - 1) // 2, pb) == 0
    assert sign_half_fp2((5, 0), pb) == 0 and sign_half_fp2((pb - 5, 0), pb) == 1 and sign_half_fp2((pb - 5, 1), pb) == 0
    # SEC 2: sect283k1 / sect283r1 base points, compressed and uncompressed
    f = (1 << 283) | (1 << 12) | (1 << 7) | (1 << 5) | 1
    K = GF2m(f)
    a_ = 0x1234567 ^ (1 << 200)
    assert K.mul(a_, K.inv(a_)) == 1 and K.sqr(a_) == K.mul(a_, a_) and K.sqr(K.sqrt(a_)) == a_
    big = (a_ << 300) ^ (a_ << 150) ^ 0xFFFF
    assert K.reduce(big) == K.reduce_slow(big)
    K3 = GF2m(0b1011)                                  # GF(8): Tr(x) = 0, Tr(x^2... ) from the definition
    for v in range(8):
        assert K3.trace(v) == K3.trace_def(v)
        z = K3.solve_quadratic(v)
        assert (z is None) == (K3.trace_def(v) == 1) and (z is None or K3.sqr(z) ^ z == v)
    for (a, b, gx, gy, tag) in (
        (0, 1, 0x0503213F78CA44883F1A3B8162F188E553CD265F23C1567A16876913B0C2AC2458492836,
         0x01CCDA380F1C9E318D90F95D07E5426FE87E45C0E8184698E45962364E34116177DD2259, 2),
        (1, 0x027B680AC8B8596DA5A4AF8A19A0303FCA97FD7645309FA2A581485AF6263E313B79A2F5,
         0x05F939258DB7DD90E1934F8C70B0DFEC2EED25B8557EAC9C80E2E198F8CDBECD86B12053,
         0x03676854FE24141CB98FE6D4B20D02B4516FF702350EDDB0826779C813F0DF45BE8112F4, 3)):
        Eb = BinCurve(K, a, b)
        Cb = BinCodec(Eb, 36)
        assert Eb.on_curve((gx, gy))
        enc = Cb.enc((gx, gy), True)
        assert enc[0] == tag and Cb.dec(enc) == (True, (gx, gy)) and Cb.dec(Cb.enc((gx, gy), False)) == (True, (gx, gy))
        G2 = Eb.add((gx, gy), (gx, gy))
        assert Eb.on_curve(G2) and Eb.add(G2, Eb.neg((gx, gy))) == (gx, gy)
        assert Cb.dec(b"\x02" + (1 << 283).to_bytes(36, "big")) == (False, "range")
        ok, P0 = Cb.dec(b"\x02" + bytes(36))
        assert ok and P0[0] == 0 and Eb.on_curve(P0)
    # edwards25519 (RFC 8032): base point y = 4/5, x even
    pe = 2 ** 255 - 19
    d = (-121665 * pow(121666, -1, pe)) % pe
    Ee = EdCurve(pe, -1, d)
    By = 4 * pow(5, -1, pe) % pe
    B = Ee.lift_y(By, 0)
    assert B[0] == 0x216936D3CD6E53FEC0A4E231FDD6DC5C692CC7609525A7B2C9562D608F25D51A and Ee.on_curve(B)
    n = 2 ** 252 + 27742317777372353535851937790883648493
    assert Ee.mul(n, B) == (0, 1) and Ee.mul(n - 1, B) == Ee.neg(B)
    Ce = EdCodec(Ee, 32)
    assert Ce.dec(Ce.enc(B, True)) == (True, B) and Ce.dec(Ce.enc(B, False)) == (True, B) and Ce.enc((0, 1), True) == b"\0"
    assert Ce.dec(b"\x04" + (1).to_bytes(32, "big") + bytes(32)) == (False, "noncanonical")
    # Fp12 compression on the BLS12-381 tower: compress/decompress is the identity on the cyclotomic subgroup and
    # the fast p^2-Frobenius agrees with exponentiation
    T = rext.build_tower(pb, -1, None, (1, 1))
    cy = Cyc12(T)
    F12 = T[12]
    x = F12.unflatten([(i * 7919 + 13) ** 5 % pb for i in range(12)])
    assert F12.eq(cy.frob2(x), F12.frob(x, 2))
    c = cy.to_cyclotomic(x)
    assert cy.is_cyclotomic(c) and not cy.is_cyclotomic(x) and cy.is_cyclotomic(F12.one)
    assert cy.decompress(cy.compress(c)) == c
    c2 = F12.mul(c, c)
    assert cy.decompress(cy.compress(c2)) == c2 and cy.decompress(cy.compress(F12.one)) == F12.one
    ok, back = fp12_pack_dec(cy, fp12_pack_enc(cy, c, pb, 48), pb, 48)
    assert ok and back == c
    bad = list(cy.compress(c))
    bad[1] = T[2].add(bad[1], T[2].one)
    assert cy.decompress(bad) is None
    # norm-1 Fp2 elements
    F2 = T[2]
    z = (123456789, 987654321)
    u = F2.mul(z, F2.inv((z[0], (-z[1]) % pb)))
    assert fp2_is_unitary(u, pb, -1)
    assert fp2_pack_dec(fp2_pack_enc(u, pb, 48, -1), pb, 48, -1) == (True, u)
    # cube roots in Fp2
    w = (5, 7)
    r = cube_root_ext(F2, F2.pow(w, 3))
    assert r is not None and F2.eq(F2.pow(r, 3), F2.pow(w, 3))

"""Validators for scalar recodings (DESIGN 1.4 / C09): a digit string is checked against the *definition* of the
representation (value reconstruction in Z, in Z[tau] or modulo n; digit set; length; sparsity). The textbook
generating algorithms (Hankerson-Menezes-Vanstone, Guide to ECC, Alg. 3.30/3.35/3.50/3.61, Solinas 2000) are
included only to self-test the validators and, for JSF, because the form is unique. Nothing is taken from RELIC.

Every check_* returns None when the string is a valid recoding, else a short description of what is wrong."""


def s8(b):
    return b - 256 if b >= 128 else b


def ceil_div(a, b):
    return -(-a // b)


# ---------------------------------------------------------------------------------------- plain integers

def check_win(digs, k, w):
    """Fixed windows, least significant first: sum d_i 2^(w i) = |k|, 0 <= d_i < 2^w, length ceil(bits/w)."""
    k = abs(k)
    if any(not (0 <= d < (1 << w)) for d in digs):
        return "digit outside [0, 2^w)"
    if sum(d << (w * i) for i, d in enumerate(digs)) != k:
        return "value mismatch"
    if len(digs) != ceil_div(k.bit_length(), w):
        return "length %d != ceil(bits/w) = %d" % (len(digs), ceil_div(k.bit_length(), w))
    return None


def check_slw(digs, k, w):
    """Sliding windows, most significant first: 0 = one squaring; a non-zero digit v (odd, < 2^w) = bits(v)
    squarings followed by a multiplication by g^v. Scanning reconstruction must give |k|."""
    k = abs(k)
    acc = 0
    for d in digs:
        if d == 0:
            acc <<= 1
        else:
            if d % 2 == 0:
                return "even non-zero window %d" % d
            if d >= (1 << w):
                return "window %d wider than w" % d
            acc = (acc << d.bit_length()) + d
    if acc != k:
        return "value mismatch"
    if len(digs) > k.bit_length():
        return "longer than the bit length"
    if digs and digs[0] == 0:
        return "leading zero window"
    return None


def check_naf(digs, k, w):
    """width-w NAF, least significant first."""
    k = abs(k)
    for d in digs:
        if d != 0 and (d % 2 == 0 or abs(d) >= (1 << (w - 1))):
            return "digit %d not odd / not below 2^(w-1)" % d
    if sum(d << i for i, d in enumerate(digs)) != k:
        return "value mismatch"
    nz = [i for i, d in enumerate(digs) if d]
    for a, b in zip(nz, nz[1:]):
        if b - a < w:
            return "non-zero digits at distance %d < w" % (b - a)
    if len(digs) > k.bit_length() + 1:
        return "length %d > bits + 1" % len(digs)
    if digs and digs[-1] == 0:
        return "leading zero digit"
    return None


def check_reg(digs, k, n, w):
    """Regular (fixed-length, zero-free) recoding of odd 0 < k < 2^n, radix 2^(w-1), least significant first."""
    want_len = ceil_div(n, w - 1) + 1
    if len(digs) != want_len:
        return "length %d != ceil(n/(w-1)) + 1 = %d" % (len(digs), want_len)
    for d in digs:
        if d % 2 == 0:
            return "even digit %d" % d
        if abs(d) >= (1 << (w - 1)) + (1 if w == 2 else 0):
            return "digit %d not below 2^(w-1)" % d
    if sum(d << ((w - 1) * i) for i, d in enumerate(digs)) != k:
        return "value mismatch"
    return None


def jsf_textbook(k, l):
    """Joint sparse form, Hankerson et al. Algorithm 3.50 (Solinas); rows least significant first."""
    k, l = abs(k), abs(l)
    u0, u1 = [], []
    d0 = d1 = 0
    while k + d0 > 0 or l + d1 > 0:
        l0, l1 = d0 + k, d1 + l
        us = []
        for a, b in ((l0, l1), (l1, l0)):
            if a % 2 == 0:
                u = 0
            else:
                u = 2 - (a % 4)            # a mods 4
                if a % 8 in (3, 5) and b % 4 == 2:
                    u = -u
            us.append(u)
        u0.append(us[0])
        u1.append(us[1])
        if 2 * d0 == 1 + us[0]:
            d0 = 1 - d0
        if 2 * d1 == 1 + us[1]:
            d1 = 1 - d1
        k //= 2
        l //= 2
    return u0, u1


def check_jsf(r0, r1, k, l):
    """r0, r1: the two rows (least significant first, equal length)."""
    k, l = abs(k), abs(l)
    if len(r0) != len(r1):
        return "rows differ in length"
    if any(d not in (-1, 0, 1) for d in r0 + r1):
        return "digit outside {0, +-1}"
    if sum(d << i for i, d in enumerate(r0)) != k:
        return "first row value mismatch"
    if sum(d << i for i, d in enumerate(r1)) != l:
        return "second row value mismatch"
    n = len(r0)
    for j in range(n - 2):
        if all((r0[j + t], r1[j + t]) != (0, 0) for t in range(3)):
            return "three consecutive non-zero columns at %d" % j
    rows = (r0, r1)
    for i in (0, 1):
        for j in range(n - 1):
            a, b = rows[i][j], rows[i][j + 1]
            if a * b == -1:
                return "adjacent digits of opposite sign in row %d at %d" % (i, j)
            if a * b != 0 and not (rows[1 - i][j + 1] != 0 and rows[1 - i][j] == 0):
                return "adjacent non-zero digits in row %d at %d without the (+-1, 0) pattern in the other row" % (i, j)
    if n > max(k.bit_length(), l.bit_length()) + 1:
        return "length %d > max bits + 1" % n
    return None


# ---------------------------------------------------------------------------------------- Z[tau]

class ZTau:
    """Z[tau] with tau^2 = mu*tau - 2 (Frobenius of a Koblitz curve, mu = (-1)^(1-a))."""

    def __init__(self, mu):
        assert mu in (1, -1)
        self.mu = mu

    def mul(self, x, y):
        a, b = x
        c, d = y
        return (a * c - 2 * b * d, a * d + b * c + self.mu * b * d)

    def add(self, x, y):
        return (x[0] + y[0], x[1] + y[1])

    def norm(self, x):
        a, b = x
        return a * a + self.mu * a * b + 2 * b * b

    def conj(self, x):
        a, b = x
        return (a + self.mu * b, -b)

    def tau_pow(self, i):
        r = (1, 0)
        for _ in range(i):
            r = self.mul(r, (0, 1))
        return r

    def divides(self, d, z):
        n = self.norm(d)
        q = self.mul(z, self.conj(d))
        return q[0] % n == 0 and q[1] % n == 0

    def delta(self, m):
        """(tau^m - 1)/(tau - 1) = 1 + tau + ... + tau^(m-1)."""
        acc = (0, 0)
        p = (1, 0)
        for _ in range(m):
            acc = self.add(acc, p)
            p = self.mul(p, (0, 1))
        return acc

    def eval_digits(self, terms, step=1):
        """sum terms[i] * tau^(step*i), terms are elements (a, b); Horner from the top."""
        acc = (0, 0)
        tp = self.tau_pow(step)
        for t in reversed(terms):
            acc = self.add(self.mul(acc, tp), t)
        return acc


def check_tnaf_table(mu, w, t_w, beta, gama):
    """The width-w tau-NAF constants: alpha_u = beta[u>>1] + gama[u>>1]*tau must be congruent to u modulo tau^w
    and of norm below 2^w (they are 'u mods tau^w', Solinas 2000 section 5.1); t_w is the image of tau in Z/2^w:
    t_w^2 - mu*t_w + 2 = 0 (mod 2^w), t_w even."""
    Z = ZTau(mu)
    if (t_w * t_w - mu * t_w + 2) % (1 << w) != 0 or t_w % 2 != 0:
        return "t_w = %d is not an even root of x^2 - mu x + 2 modulo 2^w" % t_w
    tw = Z.tau_pow(w)
    for u in range(1, 1 << (w - 1), 2):
        al = (beta[u >> 1], gama[u >> 1])
        if not Z.divides(tw, (al[0] - u, al[1])):
            return "alpha_%d = %r is not congruent to %d modulo tau^w" % (u, al, u)
        if Z.norm(al) >= (1 << w):
            return "alpha_%d = %r has norm %d >= 2^w" % (u, al, Z.norm(al))
    return None


def tnaf_terms(digs, w, beta, gama):
    out = []
    for d in digs:
        if d == 0:
            out.append((0, 0))
        elif w == 2:
            out.append((d, 0))
        else:
            u = abs(d)
            s = 1 if d > 0 else -1
            out.append((s * beta[u >> 1], s * gama[u >> 1]))
    return out


def check_tnaf(digs, k, mu, m, w, beta, gama, maxlen):
    """width-w tau-NAF of |k| reduced modulo delta = (tau^m - 1)/(tau - 1), least significant first."""
    k = abs(k)
    Z = ZTau(mu)
    for d in digs:
        if d != 0 and (d % 2 == 0 or abs(d) >= (1 << (w - 1)) + (1 if w == 2 else 0)):
            return "digit %d not odd / not below 2^(w-1)" % d
    nz = [i for i, d in enumerate(digs) if d]
    for a, b in zip(nz, nz[1:]):
        if b - a < w:
            return "non-zero digits at distance %d < w" % (b - a)
    if len(digs) > maxlen:
        return "length %d exceeds %d" % (len(digs), maxlen)
    v = Z.eval_digits(tnaf_terms(digs, w, beta, gama))
    if not Z.divides(Z.delta(m), (v[0] - k, v[1])):
        return "value %r is not congruent to k modulo (tau^m - 1)/(tau - 1)" % (v,)
    if digs and digs[-1] == 0:
        return "leading zero digit"
    return None


def check_tnaf_mod(r0, r1, k, mu, m):
    Z = ZTau(mu)
    if not Z.divides(Z.delta(m), (r0 - abs(k), r1)):
        return "r0 + r1*tau is not congruent to k modulo (tau^m - 1)/(tau - 1)"
    return None


def check_rtnaf(digs, k, mu, m, w, beta, gama):
    """regular width-w tau-NAF: fixed length ceil((m+2)/(w-1)) + 1, radix tau^(w-1), no zero digit."""
    k = abs(k)
    Z = ZTau(mu)
    want = ceil_div(m + 2, w - 1) + 1
    if len(digs) != want:
        return "length %d != ceil((m+2)/(w-1)) + 1 = %d" % (len(digs), want)
    for d in digs:
        if d % 2 == 0 or abs(d) >= (1 << (w - 1)) + (1 if w == 2 else 0):
            return "digit %d not odd / not below 2^(w-1)" % d
    v = Z.eval_digits(tnaf_terms(digs, w, beta, gama), step=w - 1)
    if not Z.divides(Z.delta(m), (v[0] - k, v[1])):
        return "value %r is not congruent to k modulo (tau^m - 1)/(tau - 1)" % (v,)
    return None


def tnaf_textbook(k, mu):
    """tau-NAF (w = 2) of the integer k, Hankerson et al. Algorithm 3.61 (no reduction)."""
    r0, r1 = k, 0
    out = []
    while r0 != 0 or r1 != 0:
        if r0 % 2:
            u = 2 - ((r0 - 2 * r1) % 4)
            r0 -= u
        else:
            u = 0
        out.append(u)
        r0, r1 = r1 + mu * r0 // 2, -r0 // 2
    return out


# ---------------------------------------------------------------------------------------- modulo n

def check_glv(k0, k1, k, n, lam):
    if (k0 + k1 * lam - abs(k)) % n != 0:
        return "k0 + k1*lambda is not congruent to k modulo n"
    bound = (n.bit_length() + 1) // 2 + 1
    if abs(k0).bit_length() > bound or abs(k1).bit_length() > bound:
        return "sub-scalar longer than ceil(bits(n)/2) + 1 = %d bits (%d, %d)" % (
            bound, abs(k0).bit_length(), abs(k1).bit_length())
    return None


def check_frb(ki, k, n, lam, maxbits):
    if (sum(x * pow(lam, i, n) for i, x in enumerate(ki)) - k) % n != 0:
        return "sum k_i lambda^i is not congruent to k modulo n"
    if any(abs(x).bit_length() > maxbits for x in ki):
        return "sub-scalar longer than %d bits (%r)" % (maxbits, [abs(x).bit_length() for x in ki])
    return None


def check_sac(b, l, ks):
    """Signed aligned column form (Faz-Hernandez, Longa, Sanchez 2014): row 0 holds the signs s_i = 1 - 2 b[i]
    of the odd sign-aligner k_0 = sum s_i 2^i; row j >= 1 holds 0/1 flags with k_j = sum b[j*l+i] s_i 2^i."""
    m = len(ks)
    if len(b) < m * l:
        return "buffer shorter than m*l"
    if any(x not in (0, 1) for x in b[:m * l]):
        return "entry outside {0, 1}"
    s = [1 - 2 * b[i] for i in range(l)]
    if sum(si << i for i, si in enumerate(s)) != ks[0]:
        return "sign-aligner row does not evaluate to k_0"
    for j in range(1, m):
        if sum((b[j * l + i] * s[i]) << i for i in range(l)) != ks[j]:
            return "row %d does not evaluate to k_%d" % (j, j)
    return None


# ---------------------------------------------------------------------------------------- curve families

def bn_family(x):
    """Barreto-Naehrig: p(x), n(x), trace-1 = 6x^2 (Frobenius eigenvalue on G2 is p mod n)."""
    p = 36 * x ** 4 + 36 * x ** 3 + 24 * x ** 2 + 6 * x + 1
    n = 36 * x ** 4 + 36 * x ** 3 + 18 * x ** 2 + 6 * x + 1
    return p, n


def bls12_family(x):
    n = x ** 4 - x ** 2 + 1
    p = (x - 1) ** 2 * n // 3 + x
    return p, n


# ---------------------------------------------------------------------------------------- affine curve (for lambda)

def ec_add(P, Q, a, p):
    if P is None:
        return Q
    if Q is None:
        return P
    x1, y1 = P
    x2, y2 = Q
    if x1 == x2:
        if (y1 + y2) % p == 0:
            return None
        lam = (3 * x1 * x1 + a) * pow(2 * y1, -1, p) % p
    else:
        lam = (y2 - y1) * pow(x2 - x1, -1, p) % p
    x3 = (lam * lam - x1 - x2) % p
    return (x3, (lam * (x1 - x3) - y1) % p)


def ec_mul(k, P, a, p):
    R = None
    for bit in bin(k)[2:]:
        R = ec_add(R, R, a, p)
        if bit == "1":
            R = ec_add(R, P, a, p)
    return R


# ---------------------------------------------------------------------------------------- self-test

def self_test():
    import random
    rnd = random.Random(5)
    # NAF of 7 is 1 0 0 -1 (msb first) - HAC example 14.? / Hankerson example 3.29
    assert check_naf([-1, 0, 0, 1], 7, 2) is None
    assert check_naf([1, 1, 1], 7, 2) is not None
    assert check_naf([-1, 0, 0, 1, 0], 7, 2) is not None
    # Hankerson example 3.36 (k = 1122334455): width-w NAFs are unique; check a textbook generator against the
    # validator for w = 2..8, and that every single-digit corruption is rejected
    def wnaf(k, w):
        out = []
        while k:
            if k & 1:
                d = k % (1 << w)
                if d >= 1 << (w - 1):
                    d -= 1 << w
                k -= d
            else:
                d = 0
            out.append(d)
            k >>= 1
        return out
    for w in range(2, 9):
        for k in [1122334455, 1, 2, 3, (1 << 64) - 1, 1 << 63, 0xAAAAAAAA, rnd.getrandbits(200)]:
            d = wnaf(k, w)
            assert check_naf(d, k, w) is None, (k, w)
            for i in range(len(d)):
                e = list(d)
                e[i] += 2 if e[i] % 2 else 1
                assert check_naf(e, k, w) is not None
            # windows
            win = [(k >> (w * i)) & ((1 << w) - 1) for i in range(ceil_div(k.bit_length(), w))]
            assert check_win(win, k, w) is None
            assert check_win(win + [0], k, w) is not None
            # regular form (Joye-Tunstall): odd k
            ko = k | 1
            n = ko.bit_length() + rnd.randrange(0, 5)
            t, reg = ko, []
            for _ in range(ceil_div(n, w - 1)):
                dd = (t % (1 << w)) - (1 << (w - 1))
                reg.append(dd)
                t = (t - dd) >> (w - 1)
            reg.append(t)
            assert check_reg(reg, ko, n, w) is None, (ko, n, w, reg)
            bad = list(reg)
            bad[0] += 2
            assert check_reg(bad, ko, n, w) is not None
    assert wnaf(1122334455, 2)[::-1][:6] == [1, 0, 0, 0, 1, 0]     # Hankerson ex. 3.36: NAF_2 starts 1 0 0 0 1 0 ...
    # sliding windows: 0b1011_0011 with w = 3
    assert check_slw([5, 0, 0, 0, 3], 0b10100011, 3) is None
    assert check_slw([5, 0, 0, 0, 0, 3], 0b10100011, 3) is not None
    assert check_slw([4, 0, 3], 0b100011, 3) is not None
    # JSF: unique; textbook algorithm must satisfy the defining properties (Hankerson ex. 3.49 pair 53, 102)
    for k, l in [(53, 102), (1, 1), (0, 7), (7, 0), (12345, 54321), (rnd.getrandbits(100), rnd.getrandbits(90))]:
        a, b = jsf_textbook(k, l)
        assert check_jsf(a, b, k, l) is None, (k, l)
    a, b = jsf_textbook(53, 102)
    # Hankerson ex. 3.49: JSF(53, 102) = (1 0 0 -1 0 -1 -1 / 1 1 0 1 0 -1 0), joint weight 5 (the two NAFs: 8)
    assert a[::-1] == [1, 0, 0, -1, 0, -1, -1] and b[::-1] == [1, 1, 0, 1, 0, -1, 0]
    assert check_jsf([1, 0, 1, 0, 1, 1], [0, 1, 1, 0, 0, 1, 1][:6], 53, 38) is not None
    # Z[tau]
    for mu in (1, -1):
        Z = ZTau(mu)
        t2 = Z.mul((0, 1), (0, 1))
        assert t2 == (-2, mu) and Z.norm((0, 1)) == 2 and Z.mul((0, 1), Z.conj((0, 1))) == (2, 0)
        for m in (5, 7, 13):
            d = Z.delta(m)
            tm = Z.tau_pow(m)
            assert Z.mul(d, (-1, 1)) == (tm[0] - 1, tm[1])        # delta * (tau - 1) = tau^m - 1
            # #E(F_2^m) = N(tau^m - 1) (Hankerson 3.4.2): E_a: mu=1 -> a=1, mu=-1 -> a=0; check m=5 by counting
        for k in [1, 2, 9, 255, 1000003, rnd.getrandbits(64)]:
            d = tnaf_textbook(k, mu)
            assert Z.eval_digits([(x, 0) for x in d]) == (k, 0)
            assert check_tnaf(d, k, mu, 2000, 2, None, None, 10 ** 6) is None
        # Solinas / Hankerson Table 3.9 for w = 3: alpha_3 = 1 - mu*tau ... and w = 4 (alpha_3 = -3+mu tau, ...)
        assert check_tnaf_table(mu, 3, 6 if mu == 1 else 2, [1, 1], [0, -mu]) is None
        assert check_tnaf_table(mu, 3, 6 if mu == 1 else 2, [1, 1], [0, mu]) is not None
        assert check_tnaf_table(mu, 4, 6 if mu == 1 else 10, [1, -3, -1, 1], [0, mu, mu, mu]) is None
    # points on E_0: y^2 + xy = x^3 + 1 over F_2: #E_0(F_2) = 4 = N(tau - 1) for mu = -1; #E_1(F_2) = 2 for mu = 1
    assert ZTau(-1).norm((-1, 1)) == 4 and ZTau(1).norm((-1, 1)) == 2
    # NIST K-163 (a = 1, mu = 1): #E(F_2^163) = 2 * n, n from FIPS 186-4 D.1.3
    n163 = 0x4000000000000000000020108A2E0CC0D99F8A5EF
    Z = ZTau(1)
    assert Z.norm(Z.delta(163)) == n163
    n233 = 0x8000000000000000000000000000069D5BB915BCD46EFB1AD5F173ABDF      # K-233, a = 0, cofactor 4
    assert ZTau(-1).norm(ZTau(-1).delta(233)) == n233
    # GLV / family polynomials: BN254 (x = -(2^62 + 2^55 + 1)) and BLS12-381 orders are the published primes
    p, n = bn_family(-(2 ** 62 + 2 ** 55 + 1))
    assert p == 0x2523648240000001BA344D80000000086121000000000013A700000000000013
    assert n == 0x2523648240000001BA344D8000000007FF9F800000000010A10000000000000D
    p, n = bls12_family(-0xd201000000010000)
    assert n == 0x73EDA753299D7D483339D80809A1D80553BDA402FFFE5BFEFFFFFFFF00000001
    assert p == 0x1a0111ea397fe69a4b1ba7b6434bacd764774b84f38512bf6730d2a0f6b0f6241eabfffeb153ffffb9feffffffffaaab
    # secp256k1: lambda from SEC2 / Hankerson ex. 3.76 style check: lambda^2 + lambda + 1 = 0 mod n and
    # [lambda]G = (beta*Gx, Gy)
    P = 2 ** 256 - 2 ** 32 - 977
    N = 0xFFFFFFFFFFFFFFFFFFFFFFFFFFFFFFFEBAAEDCE6AF48A03BBFD25E8CD0364141
    G = (0x79BE667EF9DCBBAC55A06295CE870B07029BFCDB2DCE28D959F2815B16F81798,
         0x483ADA7726A3C4655DA4FBFC0E1108A8FD17B448A68554199C47D08FFB10D4B8)
    lam = 0x5363AD4CC05C30E0A5261C028812645A122E22EA20816678DF02967C1B23BD72
    beta = 0x7AE96A2B657C07106E64479EAC3434E99CF0497512F58995C1396C28719501EE
    assert (lam * lam + lam + 1) % N == 0
    assert ec_mul(lam, G, 0, P) == (beta * G[0] % P, G[1])
    assert ec_mul(N, G, 0, P) is None
    # sac: k0 = 13 = +8 +4 +2 -1 -> signs (-,+,+,+), k1 = 5 = 8 - 4 + 2 - 1 -> flags all 1 with signs... use
    # direct evaluation instead: k1 = 6 = 4 + 2 -> flags (0,1,1,0)
    assert check_sac([1, 0, 0, 0, 0, 1, 1, 0], 4, [13, 6]) is None
    assert check_sac([1, 0, 0, 0, 0, 1, 1, 1], 4, [13, 6]) is not None

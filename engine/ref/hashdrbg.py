"""Hash_DRBG reference model, written from NIST SP 800-90A Rev. 1, section 10.1.1 (and 10.3.1 Hash_df).

    Table 2:   hash      outlen  seedlen  max_number_of_bits_per_request  reseed_interval
               SHA-224   224     440      2^19                            2^48
               SHA-256   256     440      2^19                            2^48
               SHA-384   384     888      2^19                            2^48
               SHA-512   512     888      2^19                            2^48

    Hash_df(input_string, no_of_bits_to_return)                                     (10.3.1)
        temp = Null; len = ceil(no_of_bits_to_return / outlen); counter = 0x01
        for i = 1..len: temp = temp || Hash(counter || no_of_bits_to_return || input_string); counter += 1
        (counter: 8 bits; no_of_bits_to_return: 32-bit big-endian integer); return leftmost bits of temp

    Hash_DRBG_Instantiate(entropy_input, nonce, personalization_string)             (10.1.1.2)
        seed_material = entropy_input || nonce || personalization_string
        V = Hash_df(seed_material, seedlen); C = Hash_df(0x00 || V, seedlen); reseed_counter = 1

    Hash_DRBG_Reseed(working_state, entropy_input, additional_input)                (10.1.1.3)
        seed_material = 0x01 || V || entropy_input || additional_input
        V = Hash_df(seed_material, seedlen); C = Hash_df(0x00 || V, seedlen); reseed_counter = 1

    Hash_DRBG_Generate(working_state, requested_number_of_bits, additional_input)   (10.1.1.4)
        1. if reseed_counter > reseed_interval: reseed required
        2. if additional_input != Null: w = Hash(0x02 || V || additional_input); V = (V + w) mod 2^seedlen
        3. returned_bits = Hashgen(requested_number_of_bits, V)
        4. H = Hash(0x03 || V)
        5. V = (V + H + C + reseed_counter) mod 2^seedlen
        6. reseed_counter = reseed_counter + 1

    Hashgen(requested_number_of_bits, V)
        m = ceil(requested_no_of_bits / outlen); data = V; W = Null
        for i = 1..m: w = Hash(data); W = W || w; data = (data + 1) mod 2^seedlen
        return leftmost requested_no_of_bits of W

V and C are handled as Python integers; nothing here is derived from RELIC's sources. Lengths are in bytes
(the byte-oriented special case of the bit-oriented standard)."""
import hashlib

PARAMS = {  # hash id -> (constructor, outlen bytes, seedlen bytes)
    224: (hashlib.sha224, 28, 55),
    256: (hashlib.sha256, 32, 55),
    384: (hashlib.sha384, 48, 111),
    512: (hashlib.sha512, 64, 111),
}
MAX_REQUEST_BYTES = (1 << 19) // 8      # max_number_of_bits_per_request = 2^19
RESEED_INTERVAL = 1 << 48


class RequestTooLarge(ValueError):
    pass


class ReseedRequired(RuntimeError):
    pass


def hash_df(H, outlen, data, nbytes):
    n = -(-nbytes // outlen)
    if n > 255:
        raise ValueError("Hash_df: too many blocks")
    bits = (8 * nbytes).to_bytes(4, "big")
    temp = b"".join(H(bytes([i]) + bits + data).digest() for i in range(1, n + 1))
    return temp[:nbytes]


class HashDRBG:
    """Working state (V, C, reseed_counter) of one instance; no prediction resistance."""

    def __init__(self, hash_id=256):
        self.H, self.outlen, self.seedlen = PARAMS[hash_id]
        self.hash_id = hash_id
        self.mod = 1 << (8 * self.seedlen)
        self.V = self.C = None
        self.reseed_counter = 0
        self.instantiated = False
        self.last_update = None     # diagnostics of the last V update (carry classification only)

    # -- helpers
    def _b(self, x):
        return x.to_bytes(self.seedlen, "big")

    def _df(self, data):
        return hash_df(self.H, self.outlen, data, self.seedlen)

    def _set_seed(self, seed_material):
        v = self._df(seed_material)
        self.V = int.from_bytes(v, "big")
        self.C = int.from_bytes(self._df(b"\x00" + v), "big")
        self.reseed_counter = 1

    # -- SP 800-90A functions
    def instantiate(self, entropy_input, nonce=b"", personalization_string=b""):
        self._set_seed(bytes(entropy_input) + bytes(nonce) + bytes(personalization_string))
        self.instantiated = True

    def reseed(self, entropy_input, additional_input=b""):
        if not self.instantiated:
            raise RuntimeError("not instantiated")
        self._set_seed(b"\x01" + self._b(self.V) + bytes(entropy_input) + bytes(additional_input))

    def hashgen(self, nbytes):
        m = -(-nbytes // self.outlen)
        data = self.V
        out = []
        for _ in range(m):
            out.append(self.H(self._b(data)).digest())
            data = (data + 1) % self.mod
        return b"".join(out)[:nbytes]

    def generate(self, nbytes, additional_input=b""):
        if not self.instantiated:
            raise RuntimeError("not instantiated")
        if nbytes > MAX_REQUEST_BYTES:
            raise RequestTooLarge(nbytes)
        if self.reseed_counter > RESEED_INTERVAL:
            raise ReseedRequired()
        if additional_input:
            w = int.from_bytes(self.H(b"\x02" + self._b(self.V) + bytes(additional_input)).digest(), "big")
            self.V = (self.V + w) % self.mod
        out = self.hashgen(nbytes)
        h = int.from_bytes(self.H(b"\x03" + self._b(self.V)).digest(), "big")
        self.last_update = (self.V, h, self.C, self.reseed_counter, nbytes)
        self.V = (self.V + h + self.C + self.reseed_counter) % self.mod
        self.reseed_counter += 1
        return out

    # -- observation
    def state_bytes(self):
        """V || C as the 2*seedlen-byte big-endian strings the standard defines."""
        return self._b(self.V) + self._b(self.C)

    def clone(self):
        o = HashDRBG(self.hash_id)
        o.V, o.C, o.reseed_counter, o.instantiated = self.V, self.C, self.reseed_counter, self.instantiated
        return o


# ------------------------------------------------------------------------------------------ carry diagnostics

def _trailing_ff_bytes(x, nbytes):
    n = 0
    while n < nbytes and (x >> (8 * n)) & 0xFF == 0xFF:
        n += 1
    return n


def carry_profile(update, outlen, seedlen):
    """Classify how far carries travel in one update V + H + C + reseed_counter (any order of the additions gives
    the same sum; the profile describes the byte-wise schoolbook addition V+C, then +H, then +counter):
      h_ripple: bytes above the outlen-byte H that a carry out of the H addition travels through (0 = no carry)
      c_ripple: bytes above the counter's own bytes that the counter addition's carry travels through
      wrap:     whether the total exceeded 2^seedlen (reduction mod 2^seedlen actually dropped something)
      hashgen_ripple: bytes above the lowest one changed by the data+1 increments of Hashgen"""
    V, h, C, ctr, nbytes = update
    mod = 1 << (8 * seedlen)
    s1 = (V + C) % mod
    lo_bits = 8 * outlen
    hi_bytes = seedlen - outlen
    h_ripple = 0
    if ((s1 & ((1 << lo_bits) - 1)) + h) >> lo_bits:
        h_ripple = 1 + _trailing_ff_bytes(s1 >> lo_bits, hi_bytes)
    s2 = (s1 + h) % mod
    k = max(1, (ctr.bit_length() + 7) // 8)
    c_ripple = 0
    if ((s2 & ((1 << (8 * k)) - 1)) + ctr) >> (8 * k):
        c_ripple = 1 + _trailing_ff_bytes(s2 >> (8 * k), seedlen - k)
    wrap = (V + h + C + ctr) >= mod
    m = -(-nbytes // outlen)
    hg = 0
    if m > 1:
        a, b = V, (V + m - 1) % mod
        hg = max(0, (((a ^ b).bit_length() + 7) // 8) - 1)
    return dict(h_ripple=h_ripple, c_ripple=c_ripple, wrap=wrap, hashgen_ripple=hg)


def search_carry_histories(hash_id=256, nseeds=2200, steps=512, tail_seeds=150000, per_class=12):
    """Deterministic search (fixed seed strings, no randomness) for short call histories whose state update makes a
    carry travel through several bytes. The state trajectory does not depend on the request sizes, so an entry is
    (seed, reseed data or None, n): the n-th generate after the last (re)seed shows the effect.
    Classes: h2/h3 = carry out of the H addition travels through >= 2 / >= 3 bytes; c2/c3 = same for the
    reseed_counter addition; fftail = V ends in >= 2 bytes 0xFF right after instantiation (n = 1)."""
    H, outlen, seedlen = PARAMS[hash_id]
    mod = 1 << (8 * seedlen)
    lo_bits = 8 * outlen
    lo_mask = (1 << lo_bits) - 1
    found = {"h2": [], "h3": [], "c2": [], "c3": [], "fftail": []}
    for i in range(nseeds):
        seed = b"C15/carry/%d" % i
        rs = (b"C15/reseed/%d" % i) if i % 3 == 2 else None
        d = HashDRBG(hash_id)
        d.instantiate(seed)
        if rs is not None:
            d.reseed(rs)
        V, C = d.V, d.C
        for ctr in range(1, steps + 1):
            h = int.from_bytes(H(b"\x03" + V.to_bytes(seedlen, "big")).digest(), "big")
            s1 = (V + C) % mod
            hit = False
            if ((s1 >> lo_bits) & 0xFF) == 0xFF and ((s1 & lo_mask) + h) >> lo_bits:
                hit = True
            s2 = (s1 + h) % mod
            k = 1 if ctr < 256 else 2
            if ((s2 >> (8 * k)) & 0xFF) == 0xFF and ((s2 & ((1 << (8 * k)) - 1)) + ctr) >> (8 * k):
                hit = True
            if hit:
                prof = carry_profile((V, h, C, ctr, 0), outlen, seedlen)
                for cls, key, thr, maxn in (("h3", "h_ripple", 3, steps), ("h2", "h_ripple", 2, 48),
                                            ("c3", "c_ripple", 3, steps), ("c2", "c_ripple", 2, 64)):
                    if prof[key] >= thr and ctr <= maxn and len(found[cls]) < per_class:
                        found[cls].append(dict(seed=seed.hex(), reseed=rs.hex() if rs else None, n=ctr, cls=cls,
                                               h_ripple=prof["h_ripple"], c_ripple=prof["c_ripple"]))
                        break
            V = (s2 + ctr) % mod
    for i in range(tail_seeds):
        seed = b"C15/tail/%d" % i
        v = hash_df(H, outlen, seed, seedlen)
        if v[-2:] == b"\xff\xff" and len(found["fftail"]) < per_class:
            found["fftail"].append(dict(seed=seed.hex(), reseed=None, n=1, cls="fftail", h_ripple=0, c_ripple=0))
    out = []
    for cls in ("h2", "h3", "c2", "c3", "fftail"):
        out.extend(found[cls])
    return out


# ------------------------------------------------------------------------------------------ self-test

# NIST CSRC "Hash_DRBG.pdf" examples, SHA-256, no prediction resistance, no personalization string, no
# additional input: EntropyInput = 00 01 .. 36 (55 bytes), Nonce = 20 21 .. 27; two requests of 512 bits.
_SHA256_NOPR_OUT = bytes.fromhex(
    "77E05A0E7DC78AB5D8934D5E93E82C06A07C04CEE6C9C53045EEB485872777CF3B3E35C474F976B894BF301A86FA651F"
    "463970E89D4A0534B2ECAD29EC044E7E"
    "5FF4BA493C40CFFF3B01E472C575668CCE3880B9290B05BFEDE5EC96ED5E9B2898508B09BC800EEE099A3C90602ABD4B"
    "1D4F343D497C6055C87BB956D53BF351")
# same document, prediction resistance example: EntropyInputPR1 = 80 81 .. B6, EntropyInputPR2 = C0 C1 .. F6
# (a reseed with the PR entropy precedes each of the two requests)
_SHA256_PR_OUT = bytes.fromhex(
    "92275523C70E567BCF9B35EC50B933F812616DF586B7F72EE1BC7735A5C2654373CBBC72316DFF8420A33BF02B97AC8D"
    "1952583F270ACD7005CC027F4CF1187E"
    "681A46B2AA8694A0FE4DEEA720927A84EAAA985E59C19F8BE0984D8CBEF8C69B754167641946E040EE2043E1CCB29DCF"
    "063C0A50830E428E6DCA262ECD77C542")

def _vectors_from_test_rand(path="/repo/test/test_rand.c"):
    """The library's own test file quotes the same NIST document for all four hash functions; used as an additional
    source of published vectors for SHA-224/384/512 when the file is readable. Returns {hash_id: (r1, r2)}."""
    import re
    try:
        src = open(path).read()
    except OSError:
        return {}
    out = {}
    for m in re.finditer(r"MD_MAP == SH(\d+)(.*?)(?=#elif MD_MAP|#endif)", src, re.S):
        hid = int(m.group(1))
        arrs = re.findall(r"uint8_t result(\d)\[\] = \{(.*?)\};", m.group(2), re.S)
        if len(arrs) == 2:
            d = {k: bytes(int(x, 16) for x in re.findall(r"0x([0-9A-Fa-f]{2})", v)) for k, v in arrs}
            out[hid] = (d["1"], d["2"])
    return out


def self_test():
    a, b = _nist_example_generic(256, 128)
    if a != _SHA256_NOPR_OUT:
        raise AssertionError("Hash_DRBG SHA-256 reference does not reproduce the NIST example (no PR)")
    if b != _SHA256_PR_OUT:
        raise AssertionError("Hash_DRBG SHA-256 reference does not reproduce the NIST example (reseed / PR)")
    # structural checks that follow directly from the standard's text
    d = HashDRBG(256)
    d.instantiate(b"x")
    v0 = d.V
    assert d.reseed_counter == 1 and d.generate(0) == b"" and d.reseed_counter == 2 and d.V != v0
    e = HashDRBG(256)
    e.instantiate(b"x")
    s = e.generate(65536)
    assert len(s) == 65536 and e.V == d.V, "the state update must not depend on the request size"
    f = HashDRBG(256)
    f.instantiate(b"x")
    assert f.generate(33) == s[:33]
    try:
        f.generate(65537)
        raise AssertionError("request above 2^19 bits accepted")
    except RequestTooLarge:
        pass
    # the other hash functions against the vectors quoted in the library's test file, when available
    checked = [256]
    for hid, (r1, r2) in sorted(_vectors_from_test_rand().items()):
        if hid not in PARAMS:
            continue
        H, outlen, seedlen = PARAMS[hid]
        got = _nist_example_generic(hid, len(r1))
        if got is None:
            continue
        if got != (r1, r2):
            raise AssertionError("Hash_DRBG SHA-%d reference does not reproduce the published example" % hid)
        if hid != 256:
            checked.append(hid)
    return checked


def _nist_example_generic(hash_id, total):
    """The scenario of the library's test file: seed1 = 00..(seedlen-1) || 20 21 .. (nonce), sizes as declared there
    (62, 63, 123, 127 bytes); two requests of 2*outlen bytes."""
    seed1_len = {224: 62, 256: 63, 384: 123, 512: 127}[hash_id]
    H, outlen, seedlen = PARAMS[hash_id]
    if total != 4 * outlen:
        return None
    seed1 = bytes(range(seedlen)) + bytes(0x20 + i for i in range(seed1_len - seedlen))
    d = HashDRBG(hash_id)
    d.instantiate(seed1)
    a = d.generate(2 * outlen) + d.generate(2 * outlen)
    d = HashDRBG(hash_id)
    d.instantiate(seed1)
    d.reseed(bytes((0x80 + i) & 0xFF for i in range(seedlen)))
    b = d.generate(2 * outlen)
    d.reseed(bytes((0xC0 + i) & 0xFF for i in range(seedlen)))
    b += d.generate(2 * outlen)
    return a, b


if __name__ == "__main__":
    print("self-test ok for", self_test())

"""Reference building blocks for hashing to elliptic-curve groups, written from RFC 9380 (hash_to_field /
expand_message_xmd 5.3.1, sgn0 4.1, simplified SWU 6.6.2, Shallue-van de Woestijne 6.6.1, isogeny maps 6.6.3 / E,
Elligator 2 6.7.1 + the edwards25519 rational map D.1, BLS12 G2 cofactor clearing G.3), the SwiftEC construction
(Chavez-Saab, Rodriguez-Henriquez, Tibouchi; the a = 0 parametrisation also used by BIP 324), the Fuentes-Castaneda /
Knapp / Rodriguez-Henriquez cofactor clearing for BN twists, and textbook binary-field / twisted-Edwards arithmetic.
Pure Python; nothing here is derived from RELIC's control flow. Fields are objects with
  zero, one, add, sub, mul, sqr, neg, inv, eq, is_zero, from_int, is_square, sqrt, sgn0
(HFp, HFp2 below); Fp2 elements are (a0, a1) tuples so that they interoperate with engine.ref.ext / engine.ref.ec."""
import hashlib

from . import fp as rfp


class RefError(Exception):
    """The documented construction is undefined for these constants / inputs (e.g. an invalid Z)."""


# ------------------------------------------------------------------------------------------ expand_message_xmd

HASHES = {
    "sha224": (hashlib.sha224, 28, 64),
    "sha256": (hashlib.sha256, 32, 64),
    "sha384": (hashlib.sha384, 48, 128),
    "sha512": (hashlib.sha512, 64, 128),
}


def expand_message_xmd(msg, dst, len_in_bytes, hname="sha256"):
    """RFC 9380 section 5.3.1 (with the 5.3.3 rule for tags longer than 255 bytes)."""
    H, b_in_bytes, s_in_bytes = HASHES[hname]
    msg, dst = bytes(msg), bytes(dst)
    if len(dst) > 255:
        dst = H(b"H2C-OVERSIZE-DST-" + dst).digest()
    ell = (len_in_bytes + b_in_bytes - 1) // b_in_bytes
    if ell > 255 or len_in_bytes > 65535:
        raise ValueError("expand_message_xmd: requested length too large")
    dst_prime = dst + bytes([len(dst)])
    z_pad = bytes(s_in_bytes)
    l_i_b_str = len_in_bytes.to_bytes(2, "big")
    b0 = H(z_pad + msg + l_i_b_str + b"\x00" + dst_prime).digest()
    bi = H(b0 + b"\x01" + dst_prime).digest()
    out = bi
    for i in range(2, ell + 1):
        bi = H(bytes(x ^ y for x, y in zip(b0, bi)) + bytes([i]) + dst_prime).digest()
        out += bi
    return out[:len_in_bytes]


def os2ip_mod(b, p):
    return int.from_bytes(b, "big") % p


# ------------------------------------------------------------------------------------------ fields

class HFp:
    deg = 1

    def __init__(self, p):
        self.p = p
        self.zero, self.one = 0, 1

    def add(self, a, b):
        return (a + b) % self.p

    def sub(self, a, b):
        return (a - b) % self.p

    def mul(self, a, b):
        return a * b % self.p

    def sqr(self, a):
        return a * a % self.p

    def neg(self, a):
        return (-a) % self.p

    def inv(self, a):
        return pow(a, -1, self.p)

    def eq(self, a, b):
        return (a - b) % self.p == 0

    def is_zero(self, a):
        return a % self.p == 0

    def from_int(self, n):
        return n % self.p

    def is_square(self, a):
        a %= self.p
        return a == 0 or pow(a, (self.p - 1) // 2, self.p) == 1

    def sqrt(self, a):
        return rfp.sqrt_mod(a % self.p, self.p)

    def sgn0(self, a):
        return (a % self.p) & 1


class HFp2:
    """Fp[i]/(i^2 - beta), beta a non-square; elements (a0, a1)."""
    deg = 2

    def __init__(self, p, beta):
        self.p, self.beta = p, beta % p
        if pow(self.beta, (p - 1) // 2, p) != p - 1:
            raise RefError("Fp2: beta is not a quadratic non-residue")
        self.zero, self.one = (0, 0), (1, 0)
        self.B = HFp(p)

    def add(self, a, b):
        p = self.p
        return ((a[0] + b[0]) % p, (a[1] + b[1]) % p)

    def sub(self, a, b):
        p = self.p
        return ((a[0] - b[0]) % p, (a[1] - b[1]) % p)

    def mul(self, a, b):
        p = self.p
        return ((a[0] * b[0] + self.beta * a[1] * b[1]) % p, (a[0] * b[1] + a[1] * b[0]) % p)

    def sqr(self, a):
        return self.mul(a, a)

    def neg(self, a):
        p = self.p
        return ((-a[0]) % p, (-a[1]) % p)

    def norm(self, a):
        return (a[0] * a[0] - self.beta * a[1] * a[1]) % self.p

    def inv(self, a):
        n = self.norm(a)
        if n == 0:
            raise ZeroDivisionError("inverse of zero in Fp2")
        ni = pow(n, -1, self.p)
        return (a[0] * ni % self.p, (-a[1]) * ni % self.p)

    def eq(self, a, b):
        return (a[0] - b[0]) % self.p == 0 and (a[1] - b[1]) % self.p == 0

    def is_zero(self, a):
        return a[0] % self.p == 0 and a[1] % self.p == 0

    def from_int(self, n):
        return (n % self.p, 0)

    def conj(self, a):
        """the p-power Frobenius (i^p = -i because beta is a non-residue)"""
        return (a[0] % self.p, (-a[1]) % self.p)

    def pow(self, a, e):
        if e < 0:
            return self.pow(self.inv(a), -e)
        r = self.one
        for i in range(e.bit_length() - 1, -1, -1):
            r = self.mul(r, r)
            if (e >> i) & 1:
                r = self.mul(r, a)
        return r

    def is_square(self, a):
        # a^((p^2-1)/2) = N(a)^((p-1)/2): a is a square in Fp2 iff its norm is a square in Fp
        return self.B.is_square(self.norm(a))

    def sqrt(self, a):
        """a square root (complex method) or None; the result is verified by squaring."""
        p = self.p
        if self.is_zero(a):
            return self.zero
        a0, a1 = a[0] % p, a[1] % p
        if a1 == 0:
            s = rfp.sqrt_mod(a0, p)
            if s is not None:
                r = (s, 0)
            else:
                s = rfp.sqrt_mod(a0 * pow(self.beta, -1, p) % p, p)
                if s is None:
                    return None
                r = (0, s)
        else:
            al = rfp.sqrt_mod(self.norm(a), p)
            if al is None:
                return None
            inv2 = pow(2, -1, p)
            d = (a0 + al) * inv2 % p
            x0 = rfp.sqrt_mod(d, p)
            if x0 is None:
                d = (a0 - al) * inv2 % p
                x0 = rfp.sqrt_mod(d, p)
                if x0 is None:
                    return None
            r = (x0, a1 * pow(2 * x0, -1, p) % p)
        if not self.eq(self.mul(r, r), a):
            return None
        return r

    def sgn0(self, a):
        s0, z0 = (a[0] % self.p) & 1, a[0] % self.p == 0
        s1 = (a[1] % self.p) & 1
        return s0 | (int(z0) & s1)


def inv0(F, a):
    return F.zero if F.is_zero(a) else F.inv(a)


def rhs(F, A, B, x):
    return F.add(F.add(F.mul(F.sqr(x), x), F.mul(A, x)), B)


# ------------------------------------------------------------------------------------------ maps to Weierstrass curves

def sswu_z_check(F, A, B, Z):
    """The conditions of RFC 9380 6.6.2 that make the map total (criterion 3, irreducibility of g(x) - Z, only
    matters for the distribution and is not tested)."""
    if F.is_zero(A) or F.is_zero(B):
        return "A*B = 0"
    if F.is_square(Z):
        return "Z is a square"
    if F.eq(Z, F.neg(F.one)):
        return "Z = -1"
    if not F.is_square(rhs(F, A, B, F.mul(B, F.inv(F.mul(Z, A))))):
        return "g(B/(Z*A)) is not a square"
    return None


def map_sswu(F, A, B, Z, u):
    """RFC 9380 6.6.2, 'Operations'. Returns ((x, y), info)."""
    zu2 = F.mul(Z, F.sqr(u))
    den = F.add(F.sqr(zu2), zu2)
    tv1 = inv0(F, den)
    mBA = F.neg(F.mul(B, F.inv(A)))
    x1 = F.mul(mBA, F.add(F.one, tv1))
    exc = F.is_zero(tv1)
    if exc:
        x1 = F.mul(B, F.inv(F.mul(Z, A)))
    gx1 = rhs(F, A, B, x1)
    x2 = F.mul(zu2, x1)
    gx2 = rhs(F, A, B, x2)
    if F.is_square(gx1):
        x, y, br = x1, F.sqrt(gx1), "x1"
    else:
        x, y, br = x2, F.sqrt(gx2), "x2"
    if y is None:
        raise RefError("SSWU: neither g(x1) nor g(x2) is a square (invalid Z)")
    if F.sgn0(u) != F.sgn0(y):
        y = F.neg(y)
    return (x, y), dict(exceptional=exc, branch=br, sgn=F.sgn0(u), y0=F.is_zero(y))


def svdw_z_check(F, A, B, Z):
    """Criteria of RFC 9380 6.6.1 for Z."""
    gz = rhs(F, A, B, Z)
    if F.is_zero(gz):
        return "g(Z) = 0"
    t = F.add(F.mul(F.from_int(3), F.sqr(Z)), F.mul(F.from_int(4), A))
    if F.is_zero(t):
        return "3Z^2 + 4A = 0"
    v = F.neg(F.mul(t, F.inv(F.mul(F.from_int(4), gz))))
    if not F.is_square(v):
        return "-(3Z^2+4A)/(4g(Z)) is not a square"
    mz2 = F.neg(F.mul(Z, F.inv(F.from_int(2))))
    if not (F.is_square(gz) or F.is_square(rhs(F, A, B, mz2))):
        return "neither g(Z) nor g(-Z/2) is a square"
    return None


def svdw_consts(F, A, B, Z):
    gz = rhs(F, A, B, Z)
    t = F.add(F.mul(F.from_int(3), F.sqr(Z)), F.mul(F.from_int(4), A))
    c3 = F.sqrt(F.neg(F.mul(gz, t)))
    if c3 is None or F.is_zero(c3):
        raise RefError("SvdW: -g(Z)(3Z^2+4A) is not a non-zero square (invalid Z)")
    if F.sgn0(c3) == 1:
        c3 = F.neg(c3)
    c4 = F.neg(F.mul(F.mul(F.from_int(4), gz), F.inv(t)))
    return dict(c1=gz, c2=F.neg(F.mul(Z, F.inv(F.from_int(2)))), c3=c3, c4=c4)


def map_svdw(F, A, B, Z, u, consts=None):
    """RFC 9380 6.6.1, 'Operations'. Returns ((x, y), info)."""
    k = consts or svdw_consts(F, A, B, Z)
    tv1 = F.mul(F.sqr(u), k["c1"])
    tv2 = F.add(F.one, tv1)
    tv1 = F.sub(F.one, tv1)
    prod = F.mul(tv1, tv2)
    tv3 = inv0(F, prod)
    tv5 = F.mul(F.mul(F.mul(u, tv1), tv3), k["c3"])
    x1 = F.sub(k["c2"], tv5)
    x2 = F.add(k["c2"], tv5)
    x3 = F.add(Z, F.mul(k["c4"], F.sqr(F.mul(F.sqr(tv2), tv3))))
    for br, x in (("x1", x1), ("x2", x2), ("x3", x3)):
        g = rhs(F, A, B, x)
        if F.is_square(g):
            y = F.sqrt(g)
            break
    else:
        raise RefError("SvdW: none of g(x1), g(x2), g(x3) is a square (Z violates criterion 4 at an exceptional u)")
    if F.sgn0(u) != F.sgn0(y):
        y = F.neg(y)
    return (x, y), dict(exceptional=F.is_zero(prod), branch=br, sgn=F.sgn0(u), y0=F.is_zero(y))


def svdw_exceptional_us(F, A, B, Z):
    """All u with (1 + u^2 g(Z))(1 - u^2 g(Z)) = 0."""
    gz = rhs(F, A, B, Z)
    out = []
    for s in (F.inv(gz), F.neg(F.inv(gz))):
        r = F.sqrt(s) if F.is_square(s) else None
        if r is not None:
            out += [r, F.neg(r)]
    return out


def sswu_exceptional_us(F, Z):
    """u with Z^2 u^4 + Z u^2 = 0 apart from u = 0: u^2 = -1/Z."""
    s = F.neg(F.inv(Z))
    if not F.is_square(s):
        return []
    r = F.sqrt(s)
    return [r, F.neg(r)]


def poly_eval(F, coeffs, x):
    """sum coeffs[i] * x^i by plain evaluation (constant term first)."""
    acc, xp = F.zero, F.one
    for c in coeffs:
        acc = F.add(acc, F.mul(c, xp))
        xp = F.mul(xp, x)
    return acc


def iso_map(F, iso, P):
    """Rational map (x, y) -> (xn(x)/xd(x), y * yn(x)/yd(x)) (RFC 9380 6.6.3 / appendix E); a vanishing
    denominator means the point is in the kernel: identity."""
    if P is None:
        return None
    x, y = P
    xd, yd = poly_eval(F, iso["xd"], x), poly_eval(F, iso["yd"], x)
    if F.is_zero(xd) or F.is_zero(yd):
        return None
    return (F.mul(poly_eval(F, iso["xn"], x), F.inv(xd)), F.mul(y, F.mul(poly_eval(F, iso["yn"], x), F.inv(yd))))


def swift_candidates(F, b, s3, u, t):
    """SwiftEC for y^2 = x^3 + b, p = 1 mod 3, s3 a square root of -3: the conic point
    X = (u^3 + b - t^2)/(2t), Y = (X + t)/(s3 u) gives x1 = (X/Y - u)/2, x2 = (-X/Y - u)/2, x3 = u + 4Y^2 of which at
    least one is the abscissa of a curve point. Returns None on the exceptional set u = 0, t = 0, u^3 + b + t^2 = 0."""
    if not F.eq(F.sqr(s3), F.neg(F.from_int(3))):
        raise RefError("SwiftEC: published constant is not a square root of -3")
    u3b = F.add(F.mul(F.sqr(u), u), b)
    if F.is_zero(u) or F.is_zero(t) or F.is_zero(F.add(u3b, F.sqr(t))):
        return None
    two = F.from_int(2)
    X = F.mul(F.sub(u3b, F.sqr(t)), F.inv(F.mul(two, t)))
    Y = F.mul(F.add(X, t), F.inv(F.mul(s3, u)))
    XY = F.mul(X, F.inv(Y))
    h = F.inv(two)
    x1 = F.mul(F.sub(XY, u), h)
    x2 = F.mul(F.sub(F.neg(XY), u), h)
    x3 = F.add(u, F.mul(F.from_int(4), F.sqr(Y)))
    return x1, x2, x3


# ------------------------------------------------------------------------------------------ twists: psi and fast cofactors

def twist_psi(F2, xi, p, mtype):
    """psi = twist^-1 o Frobenius o twist on E'(Fp2) for a sextic twist by xi (D-type: b' = b/xi, M-type: b' = b xi):
    (x, y) -> (x^p g2, y^p g3) with g2 = xi^((p-1)/3), g3 = xi^((p-1)/2), inverted for M-type."""
    if (p - 1) % 6:
        raise RefError("p != 1 mod 6")
    g2, g3 = F2.pow(xi, (p - 1) // 3), F2.pow(xi, (p - 1) // 2)
    if mtype:
        g2, g3 = F2.inv(g2), F2.inv(g3)

    def psi(P):
        if P is None:
            return None
        return (F2.mul(F2.conj(P[0]), g2), F2.mul(F2.conj(P[1]), g3))
    return psi


def bn_param(p, r, cands):
    """The BN parameter x among the candidates with p = 36x^4+36x^3+24x^2+6x+1, r = 36x^4+36x^3+18x^2+6x+1."""
    for x in cands:
        if 36 * x ** 4 + 36 * x ** 3 + 24 * x ** 2 + 6 * x + 1 == p and 36 * x ** 4 + 36 * x ** 3 + 18 * x ** 2 + 6 * x + 1 == r:
            return x
    return None


def bls12_param(p, r, cands):
    for x in cands:
        if x ** 4 - x ** 2 + 1 == r and ((x - 1) ** 2 * r) % 3 == 0 and (x - 1) ** 2 * r // 3 + x == p:
            return x
    return None


def clear_cofactor_bn_g2(E, psi, x, Q):
    """Fuentes-Castaneda, Knapp, Rodriguez-Henriquez (SAC 2011): Q -> [x]Q + psi([3x]Q) + psi^2([x]Q) + psi^3(Q)."""
    xQ = E.mul(x, Q)
    R = E.add(xQ, psi(E.mul(3, xQ)))
    R = E.add(R, psi(psi(xQ)))
    return E.add(R, psi(psi(psi(Q))))


def clear_cofactor_bls12_g2(E, psi, x, Q):
    """Budroni-Pintore (RFC 9380 appendix G.3): [x^2 - x - 1]Q + [x - 1]psi(Q) + psi^2([2]Q)."""
    R = E.mul(x * x - x - 1, Q)
    R = E.add(R, E.mul(x - 1, psi(Q)))
    return E.add(R, psi(psi(E.dbl(Q))))


# ------------------------------------------------------------------------------------------ edwards25519

P25519 = 2 ** 255 - 19


class Edwards:
    """a x^2 + y^2 = 1 + d x^2 y^2 over Fp, affine unified addition law (complete for a square, d non-square)."""

    def __init__(self, p, a, d):
        self.p, self.a, self.d = p, a % p, d % p

    def on_curve(self, P):
        x, y = P
        p = self.p
        return (self.a * x * x + y * y - 1 - self.d * x * x * y * y) % p == 0

    def add(self, P, Q):
        p = self.p
        x1, y1 = P
        x2, y2 = Q
        t = self.d * x1 * x2 * y1 * y2 % p
        x3 = (x1 * y2 + y1 * x2) * pow(1 + t, -1, p) % p
        y3 = (y1 * y2 - self.a * x1 * x2) * pow(1 - t, -1, p) % p
        return (x3, y3)

    def mul(self, k, P):
        R = (0, 1)
        if k < 0:
            k, P = -k, ((-P[0]) % self.p, P[1])
        for i in range(k.bit_length() - 1, -1, -1):
            R = self.add(R, R)
            if (k >> i) & 1:
                R = self.add(R, P)
        return R


def map_elligator2_curve25519(u):
    """RFC 9380 6.7.1 with J = 486662, K = 1, Z = 2: a point (s, t) on curve25519 (None never occurs)."""
    p = P25519
    F = HFp(p)
    J, Z = 486662, 2
    x1 = (-J) * inv0(F, (1 + Z * u * u) % p) % p
    exc = x1 == 0
    if exc:
        x1 = (-J) % p
    gx1 = (x1 * x1 * x1 + J * x1 * x1 + x1) % p
    x2 = (-x1 - J) % p
    gx2 = (x2 * x2 * x2 + J * x2 * x2 + x2) % p
    if F.is_square(gx1):
        x, y, br = x1, F.sqrt(gx1), "x1"
        if F.sgn0(y) != 1:
            y = (-y) % p
    else:
        x, y, br = x2, F.sqrt(gx2), "x2"
        if y is None:
            raise RefError("Elligator 2: neither candidate is on the curve")
        if F.sgn0(y) != 0:
            y = (-y) % p
    return (x, y), dict(exceptional=exc, branch=br)


def curve25519_to_edwards25519(P):
    """RFC 9380 appendix D.1: (s, t) -> (sqrt(-486664) s / t, (s - 1)/(s + 1)), exceptional points -> (0, 1)."""
    p = P25519
    F = HFp(p)
    s, t = P
    c = F.sqrt((-486664) % p)
    if F.sgn0(c) != 0:
        c = (-c) % p
    if t % p == 0 or (s + 1) % p == 0:
        return (0, 1)
    return (c * s * pow(t, -1, p) % p, (s - 1) * pow(s + 1, -1, p) % p)


ED25519_D = (-121665 * pow(121666, -1, P25519)) % P25519


def hash_to_edwards25519(msg, dst, hname, L=48):
    """hash_to_curve for edwards25519 (random-oracle construction, h_eff = 8) with a selectable hash."""
    ub = expand_message_xmd(msg, dst, 2 * L, hname)
    E = Edwards(P25519, -1, ED25519_D)
    pts, infos = [], []
    for i in range(2):
        u = os2ip_mod(ub[i * L:(i + 1) * L], P25519)
        M, info = map_elligator2_curve25519(u)
        pts.append(curve25519_to_edwards25519(M))
        infos.append(info)
    return E.mul(8, E.add(pts[0], pts[1])), infos


# ------------------------------------------------------------------------------------------ binary fields and curves

class GF2m:
    """GF(2)[z]/(f): elements are Python ints (bit i = coefficient of z^i)."""

    def __init__(self, f):
        self.f = f
        self.m = f.bit_length() - 1
        self.mask = (1 << self.m) - 1
        self.low = [i for i in range(self.m) if (f >> i) & 1]
        self._sq = [sum(((b >> j) & 1) << (2 * j) for j in range(8)) for b in range(256)]
        self._tr = None

    def red(self, a):
        m = self.m
        while a >> m:
            h = a >> m
            a &= self.mask
            for i in self.low:
                a ^= h << i
        return a

    def mul(self, a, b):
        r = 0
        while a:
            if a & 1:
                r ^= b
            a >>= 1
            b <<= 1
        return self.red(r)

    def sqr(self, a):
        r, sh = 0, 0
        sq = self._sq
        while a:
            r |= sq[a & 255] << sh
            a >>= 8
            sh += 16
        return self.red(r)

    def inv(self, a):
        if a == 0:
            raise ZeroDivisionError("inverse of zero in GF(2^m)")
        u, v, g1, g2 = a, self.f, 1, 0
        while u != 1:
            j = u.bit_length() - v.bit_length()
            if j < 0:
                u, v, g1, g2, j = v, u, g2, g1, -j
            u ^= v << j
            g1 ^= g2 << j
        return self.red(g1)

    def trace(self, a):
        if self._tr is None:
            tr = 0
            for i in range(self.m):
                t, x = 0, 1 << i
                for _ in range(self.m):
                    t ^= x
                    x = self.sqr(x)
                if t not in (0, 1):
                    raise RefError("GF(2^m): trace outside GF(2)")
                tr |= t << i
            self._tr = tr
        return bin(a & self._tr).count("1") & 1

    def half_trace(self, c):
        """for odd m: z = H(c) = sum_{i=0}^{(m-1)/2} c^(4^i) satisfies z^2 + z = c + Tr(c)"""
        if self.m % 2 == 0:
            raise RefError("half-trace needs odd m")
        z, x = 0, c
        for _ in range((self.m - 1) // 2 + 1):
            z ^= x
            x = self.sqr(self.sqr(x))
        return z


class BinaryCurve:
    """y^2 + xy = x^3 + a x^2 + b over GF(2^m); points None or (x, y)."""

    def __init__(self, K, a, b):
        self.K, self.a, self.b = K, a, b

    def on_curve(self, P):
        if P is None:
            return True
        K = self.K
        x, y = P
        x2 = K.sqr(x)
        return K.sqr(y) ^ K.mul(x, y) == K.mul(x2, x) ^ K.mul(self.a, x2) ^ self.b

    def neg(self, P):
        return None if P is None else (P[0], P[0] ^ P[1])

    def dbl(self, P):
        K = self.K
        if P is None or P[0] == 0:
            return None
        x, y = P
        lam = x ^ K.mul(y, K.inv(x))
        x3 = K.sqr(lam) ^ lam ^ self.a
        return (x3, K.sqr(x) ^ K.mul(lam ^ 1, x3))

    def add(self, P, Q):
        K = self.K
        if P is None:
            return Q
        if Q is None:
            return P
        if P[0] == Q[0]:
            return self.dbl(P) if P[1] == Q[1] else None
        lam = K.mul(P[1] ^ Q[1], K.inv(P[0] ^ Q[0]))
        x3 = K.sqr(lam) ^ lam ^ P[0] ^ Q[0] ^ self.a
        return (x3, K.mul(lam, P[0] ^ x3) ^ x3 ^ P[1])

    def mul(self, k, P):
        R = None
        for i in range(k.bit_length() - 1, -1, -1):
            R = self.dbl(R)
            if (k >> i) & 1:
                R = self.add(R, P)
        return R

    def lift_x(self, x):
        """both points with abscissa x != 0, or None: y = x z with z^2 + z = x + a + b/x^2"""
        K = self.K
        if x == 0:
            return None
        c = x ^ self.a ^ K.mul(self.b, K.inv(K.sqr(x)))
        if K.trace(c):
            return None
        z = K.half_trace(c)
        if K.sqr(z) ^ z != c:
            raise RefError("half-trace did not solve the quadratic")
        return (x, K.mul(x, z)), (x, K.mul(x, z ^ 1))


# ------------------------------------------------------------------------------------------ self-test

def _p256():
    p = 2 ** 256 - 2 ** 224 + 2 ** 192 + 2 ** 96 - 1
    b = 0x5AC635D8AA3A93E7B3EBBD55769886BC651D06B0CC53B0F63BCE3C3E27D2604B
    return p, p - 3, b


def hash_to_curve_sswu_ro(F, E, A, B, Z, msg, dst, L, hname="sha256"):
    """hash_to_curve (random oracle, m = 1, h_eff = 1) used by the self-test against RFC 9380 J.1.1."""
    ub = expand_message_xmd(msg, dst, 2 * L, hname)
    Q = [map_sswu(F, A, B, Z, os2ip_mod(ub[i * L:(i + 1) * L], F.p))[0] for i in range(2)]
    return E.add(Q[0], Q[1])


def self_test():
    from . import ec as rec
    # --- expand_message_xmd: RFC 9380 K.1 (SHA-256), structural properties
    dst = b"QUUX-V01-CS02-with-expander-SHA256-128"
    v = expand_message_xmd(b"", dst, 0x20)
    assert v.hex() == "68a985b87eb6b46952128911f2a4412bbc302a9d759667f87f7a21d803f07235", v.hex()
    v = expand_message_xmd(b"abc", dst, 0x20)
    assert v.hex() == "d8ccab23b5985ccea865c6c97b6e5b8350e794e603b4b97902f53a8a0d605615", v.hex()
    for hn, (H, bl, sl) in HASHES.items():
        for n in (0, 1, bl - 1, bl, bl + 1, 2 * bl, 97, 255 * bl):
            o = expand_message_xmd(b"m", b"D", n, hn)
            assert len(o) == n and o == expand_message_xmd(b"m", b"D", n, hn)
            # the output is NOT a prefix-consistent stream: the length is bound into b_0
            if 0 < n < 200:
                assert expand_message_xmd(b"m", b"D", n + 1, hn)[:n] != o
        # definition re-computed by hand for one block: H(H(Z_pad|msg|len|0|DST') | 1 | DST')
        dp = b"tag" + b"\x03"
        b0 = H(bytes(sl) + b"xyz" + (5).to_bytes(2, "big") + b"\x00" + dp).digest()
        assert expand_message_xmd(b"xyz", b"tag", 5, hn) == H(b0 + b"\x01" + dp).digest()[:5]
        # the DST length suffix matters: "RELIC" and "RELIC\0" are different tags
        assert expand_message_xmd(b"", b"RELIC", 16, hn) != expand_message_xmd(b"", b"RELIC\x00", 16, hn)
        try:
            expand_message_xmd(b"", b"D", 255 * bl + 1, hn)
            raise AssertionError("ell > 255 accepted")
        except ValueError:
            pass
    long_dst = b"a" * 256
    assert expand_message_xmd(b"", long_dst, 32) == expand_message_xmd(
        b"", hashlib.sha256(b"H2C-OVERSIZE-DST-" + long_dst).digest(), 32)

    # --- SSWU + sgn0 + hash_to_field: P256_XMD:SHA-256_SSWU_RO_ (RFC 9380 J.1.1), Z = -10
    p, A, B = _p256()
    F = HFp(p)
    E = rec.Curve(rec.PrimeField(p), A, B)
    Z = p - 10
    assert sswu_z_check(F, A, B, Z) is None
    P = hash_to_curve_sswu_ro(F, E, A, B, Z, b"", b"QUUX-V01-CS02-with-P256_XMD:SHA-256_SSWU_RO_", 48)
    assert P == (0x2c15230b26dbc6fc9a37051158c95b79656e17a1a920b11394ca91c44247d3e4,
                 0x8a7a74985cc5c776cdfe4b1f19884970453912e9d31528c060be9ab5c43e8415), P
    P = hash_to_curve_sswu_ro(F, E, A, B, Z, b"abc", b"QUUX-V01-CS02-with-P256_XMD:SHA-256_SSWU_RO_", 48)
    assert P == (0x0bb8b87485551aa43ed54f009230450b492fead5f1cc91658775dac4a3388a0f,
                 0x5c41b3d0731a27a7b14bc0bf0ccded2d8751f83493404c84a88e71ffd424212e), P
    # exceptional inputs of SSWU stay on the curve with the right sign
    for u in [0, 1, p - 1] + sswu_exceptional_us(F, Z):
        (x, y), info = map_sswu(F, A, B, Z, u)
        assert E.on_curve((x, y)) and F.sgn0(y) == F.sgn0(u)
        assert info["exceptional"] == (u == 0 or F.is_zero(F.add(F.mul(Z, F.sqr(u)), F.one)))

    # --- SvdW on secp256k1 (Z = 1 satisfies the RFC criteria): totality incl. the exceptional u
    p = 2 ** 256 - 2 ** 32 - 977
    F = HFp(p)
    E = rec.Curve(rec.PrimeField(p), 0, 7)
    assert svdw_z_check(F, 0, 7, 1) is None
    exc = svdw_exceptional_us(F, 0, 7, 1)
    assert exc
    seen = set()
    for u in [0, 1, 2, 3, p - 1, p - 2, 12345, 2 ** 200 + 9] + exc + [pow(7, i, p) for i in range(1, 40)]:
        (x, y), info = map_svdw(F, 0, 7, 1, u)
        assert E.on_curve((x, y)) and F.sgn0(y) == F.sgn0(u)
        assert info["exceptional"] == (u in exc)
        seen.add(info["branch"])
    assert seen == {"x1", "x2", "x3"}, seen

    # --- SwiftEC on secp256k1: one of the three candidates is always an abscissa; symmetric in the root of -3
    s3 = F.sqrt(p - 3)
    for u, t in [(1, 1), (2, 5), (p - 1, 7), (2 ** 130 + 3, 2 ** 99 + 1)] + [(pow(3, i, p), pow(5, i, p)) for i in range(2, 30)]:
        c = swift_candidates(F, 7, s3, u, t)
        assert c is not None and any(F.is_square(rhs(F, 0, 7, x)) for x in c)
        c2 = swift_candidates(F, 7, p - s3, u, t)
        assert (c2[0], c2[1], c2[2]) == (c[1], c[0], c[2])
        assert (c[0] + c[1] + u) % p == 0
    assert swift_candidates(F, 7, s3, 0, 5) is None and swift_candidates(F, 7, s3, 5, 0) is None

    # --- Fp2 helpers (BLS12-381 prime, i^2 = -1)
    p = 0x1A0111EA397FE69A4B1BA7B6434BACD764774B84F38512BF6730D2A0F6B0F6241EABFFFEB153FFFFB9FEFFFFFFFFAAAB
    F2 = HFp2(p, p - 1)
    for a in [(3, 4), (0, 5), (7, 0), (p - 1, 0), (0, p - 2), (2 ** 300 + 1, 2 ** 200 + 77)]:
        s = F2.sqr(a)
        r = F2.sqrt(s)
        assert r is not None and (F2.eq(r, a) or F2.eq(r, F2.neg(a)))
        assert F2.is_square(s)
        assert F2.eq(F2.mul(a, F2.inv(a)), F2.one)
        assert F2.eq(F2.conj(a), F2.pow(a, p))
    ns = (1, 1)         # 1 + i is a non-square in this field (it is the sextic non-residue of the standard tower)
    assert not F2.is_square(ns) and F2.sqrt(ns) is None
    assert F2.sgn0((0, 0)) == 0 and F2.sgn0((0, 1)) == 1 and F2.sgn0((2, 1)) == 0 and F2.sgn0((1, 0)) == 1

    # --- Elligator 2 / edwards25519: edwards25519_XMD:SHA-512_ELL2_RO_ (RFC 9380 J.5.1)
    P, _ = hash_to_edwards25519(b"", b"QUUX-V01-CS02-with-edwards25519_XMD:SHA-512_ELL2_RO_", "sha512")
    assert P == (0x3c3da6925a3c3c268448dcabb47ccde5439559d9599646a8260e47b1e4822fc6,
                 0x09a6c8561a0b22bef63124c588ce4c62ea83a3c899763af26d795302e115dc21), [hex(v) for v in P]
    Ed = Edwards(P25519, -1, ED25519_D)
    ell = 2 ** 252 + 27742317777372353535851937790883648493
    assert Ed.on_curve(P) and Ed.mul(ell, P) == (0, 1)
    for u in (0, 1, P25519 - 1, HFp(P25519).sqrt((-pow(2, -1, P25519)) % P25519) or 5):
        M, info = map_elligator2_curve25519(u)
        assert (M[1] * M[1] - (M[0] ** 3 + 486662 * M[0] ** 2 + M[0])) % P25519 == 0
        assert Ed.on_curve(curve25519_to_edwards25519(M))

    # --- GF(2^m) / binary curve: NIST B-163 generator and order (FIPS 186-4 D.1.3.1.2)
    f = (1 << 163) | (1 << 7) | (1 << 6) | (1 << 3) | 1
    K = GF2m(f)
    b = 0x020a601907b8c953ca1481eb10512f78744a3205fd
    gx = 0x03f0eba16286a2d57ea0991168d4994637e8343e36
    gy = 0x00d51fbc6c71a0094fa2cdd545b11c5c0c797324f1
    n = 5846006549323611672814742442876390689256843201587
    C = BinaryCurve(K, 1, b)
    G = (gx, gy)
    assert C.on_curve(G) and C.mul(n, G) is None and C.mul(n - 1, G) == C.neg(G)
    assert K.mul(gx, K.inv(gx)) == 1 and K.sqr(gx) == K.mul(gx, gx)
    pts = C.lift_x(gx)
    assert pts is not None and G in pts and C.neg(G) in pts
    assert C.add(G, G) == C.dbl(G) and C.add(C.dbl(G), G) == C.mul(3, G)

"""Reference twisted Edwards arithmetic  a x^2 + y^2 = 1 + d x^2 y^2  over a prime field, written from the
textbook (Bernstein-Birkner-Joye-Lange-Peters, "Twisted Edwards curves", 2008; RFC 8032 section 5.1; RFC 9380
sections 5, 6.7.1, 6.8.2 and appendix D.1 for the hash-to-curve construction). Nothing is taken from RELIC.

Points are affine tuples (x, y); the neutral element is (0, 1). For a square and d non-square the affine
addition law is complete (no exceptional cases), which `Curve.is_complete()` verifies for the given parameters.
"""
import hashlib

from .fp import legendre, sqrt_mod


class Curve:
    def __init__(self, p, a, d):
        self.p, self.a, self.d = p, a % p, d % p
        self.O = (0, 1)

    # ------------------------------------------------------------------ basics
    def is_complete(self):
        """a is a non-zero square and d is a non-square: the unified law has no exceptional cases."""
        return legendre(self.a, self.p) == 1 and legendre(self.d, self.p) == -1

    def on_curve(self, P):
        x, y = P
        p = self.p
        return (self.a * x * x + y * y - 1 - self.d * x * x % p * y * y) % p == 0

    def neg(self, P):
        return ((-P[0]) % self.p, P[1])

    def eq(self, P, Q):
        return (P[0] - Q[0]) % self.p == 0 and (P[1] - Q[1]) % self.p == 0

    def is_neutral(self, P):
        return P[0] % self.p == 0 and (P[1] - 1) % self.p == 0

    def add(self, P, Q):
        """Affine unified addition law (the definition)."""
        p = self.p
        x1, y1 = P
        x2, y2 = Q
        k = self.d * x1 % p * x2 % p * y1 % p * y2 % p
        dx, dy = (1 + k) % p, (1 - k) % p
        if dx == 0 or dy == 0:
            raise ArithmeticError("exceptional case of the Edwards addition law (curve not complete or point off curve)")
        x3 = (x1 * y2 + y1 * x2) * pow(dx, -1, p) % p
        y3 = (y1 * y2 - self.a * x1 * x2) * pow(dy, -1, p) % p
        return (x3, y3)

    def dbl(self, P):
        return self.add(P, P)

    def sub(self, P, Q):
        return self.add(P, self.neg(Q))

    # ------------------------------------------------- projective helpers (only to make [k]P affordable)
    # Derived by substituting x = X/Z, y = Y/Z into the affine law and clearing denominators; cross-checked
    # against the affine law in self_test.
    def _padd(self, P, Q):
        p = self.p
        X1, Y1, Z1 = P
        X2, Y2, Z2 = Q
        A = Z1 * Z2 % p
        B = A * A % p
        C = X1 * X2 % p
        D = Y1 * Y2 % p
        E = self.d * C % p * D % p
        F = (B - E) % p
        G = (B + E) % p
        X3 = A * F % p * ((X1 * Y2 + Y1 * X2) % p) % p
        Y3 = A * G % p * ((D - self.a * C) % p) % p
        Z3 = F * G % p
        return (X3, Y3, Z3)

    def _paffine(self, P):
        X, Y, Z = P
        if Z % self.p == 0:
            raise ArithmeticError("projective point with Z = 0")
        zi = pow(Z, -1, self.p)
        return (X * zi % self.p, Y * zi % self.p)

    def mul(self, k, P):
        """[k]P for any integer k: left-to-right double-and-add on |k|."""
        if k < 0:
            return self.mul(-k, self.neg(P))
        R = (0, 1, 1)
        Pp = (P[0], P[1], 1)
        for i in range(k.bit_length() - 1, -1, -1):
            R = self._padd(R, R)
            if (k >> i) & 1:
                R = self._padd(R, Pp)
        return self._paffine(R)

    def mul_naive(self, k, P):
        """[k]P by repeated affine addition (small |k|): the definition itself."""
        R = self.O
        Q = P if k >= 0 else self.neg(P)
        for _ in range(abs(k)):
            R = self.add(R, Q)
        return R

    # -------------------------------------------------------------------- points
    def lift_y(self, y, sign=0):
        """A point with this y and x of parity `sign` (x^2 = (y^2 - 1) / (d y^2 - a)), or None."""
        p = self.p
        y %= p
        den = (self.d * y * y - self.a) % p
        if den == 0:
            return None
        x2 = (y * y - 1) * pow(den, -1, p) % p
        x = sqrt_mod(x2, p)
        if x is None:
            return None
        if (x & 1) != (sign & 1):
            x = (-x) % p
        return (x, y)

    def lift_y_next(self, y, sign=0):
        """Deterministic construction: the first liftable y' in y, y+1, ... (about two tries on average)."""
        while True:
            P = self.lift_y(y, sign)
            if P is not None:
                return P
            y += 1

    def order2(self):
        return (0, self.p - 1)

    def order4(self):
        """The two points (+-1/sqrt(a), 0) of order four."""
        s = sqrt_mod(self.a, self.p)
        if s is None:
            return []
        x = pow(s, -1, self.p)
        return [(x, 0), ((-x) % self.p, 0)]

    def small_order(self, P):
        """Order of P if it divides 8, else None."""
        Q = P
        for o in (1, 2, 4, 8):
            if self.is_neutral(Q):
                return o
            Q = self.dbl(Q)
        return None

    def find_order8(self, r):
        """An order-8 point: [r]P for curve points P lifted from y = 2, 3, ... until the order is exactly 8."""
        y = 2
        while True:
            P = self.lift_y(y)
            y += 1
            if P is None:
                continue
            T = self.mul(r, P)
            if self.small_order(T) == 8:
                return T


# ---------------------------------------------------------------------------------------- Ed25519 (RFC 8032)

P25519 = 2 ** 255 - 19
ED25519_D = (-121665 * pow(121666, -1, P25519)) % P25519
ED25519_L = 2 ** 252 + 27742317777372353535851937790883648493
ED25519_BY = 4 * pow(5, -1, P25519) % P25519
ED25519_BX = 15112221349535400772501151409588531511454012693041857206046113283949847762202
ED25519_BY_DEC = 46316835694926478169428394003475163141307993866256225615783033603165251855960


def ed25519():
    return Curve(P25519, -1, ED25519_D)


def rfc8032_encode(E, P):
    """RFC 8032 5.1.2: little-endian y with the parity of x in the top bit."""
    x, y = P
    return (y | ((x & 1) << 255)).to_bytes(32, "little")


def rfc8032_decode(E, b):
    """RFC 8032 5.1.3; None when decoding fails."""
    v = int.from_bytes(b, "little")
    sign = v >> 255
    y = v & ((1 << 255) - 1)
    if y >= E.p:
        return None
    P = E.lift_y(y, sign)
    if P is None:
        return None
    if P[0] == 0 and sign == 1:
        return None
    return P


# --------------------------------------------------------------------------- hash to curve (RFC 9380)

_HASHES = {"sha256": (hashlib.sha256, 32, 64), "sha512": (hashlib.sha512, 64, 128), "sha224": (hashlib.sha224, 28, 64),
           "sha384": (hashlib.sha384, 48, 128)}


def expand_message_xmd(msg, dst, n, hname="sha256"):
    """RFC 9380 section 5.3.1."""
    H, b_in_bytes, s_in_bytes = _HASHES[hname]
    if len(dst) > 255:
        raise ValueError("DST longer than 255 bytes must be hashed first (5.3.3); not used here")
    ell = (n + b_in_bytes - 1) // b_in_bytes
    if ell > 255 or n > 65535:
        raise ValueError("requested output too long")
    dst_prime = dst + bytes([len(dst)])
    z_pad = bytes(s_in_bytes)
    l_i_b = n.to_bytes(2, "big")
    b0 = H(z_pad + msg + l_i_b + b"\x00" + dst_prime).digest()
    bi = H(b0 + b"\x01" + dst_prime).digest()
    out = bi
    for i in range(2, ell + 1):
        bi = H(bytes(x ^ y for x, y in zip(b0, bi)) + bytes([i]) + dst_prime).digest()
        out += bi
    return out[:n]


def hash_to_field(msg, dst, count, p, L, hname="sha256"):
    """RFC 9380 section 5.2 for a prime field (m = 1)."""
    ub = expand_message_xmd(msg, dst, count * L, hname)
    return [int.from_bytes(ub[L * i:L * (i + 1)], "big") % p for i in range(count)]


def sgn0(x, p):
    return (x % p) & 1


def _sqrt_any(a, p):
    return sqrt_mod(a, p)


def elligator2_curve25519(u):
    """RFC 9380 section 6.7.1 (straight-line version of the generic map) for the Montgomery curve
    K t^2 = s^3 + J s^2 + s with J = 486662, K = 1, Z = 2. Returns (s, t)."""
    p = P25519
    J, K, Z = 486662, 1, 2
    Kinv = pow(K, -1, p)
    den = (1 + Z * u * u) % p
    x1 = (-J * Kinv) % p * (pow(den, -1, p) if den else 0) % p
    if x1 == 0:
        x1 = (-J * Kinv) % p
    gx1 = (pow(x1, 3, p) + J * Kinv * x1 * x1 + x1 * Kinv * Kinv) % p
    x2 = (-x1 - J * Kinv) % p
    gx2 = (pow(x2, 3, p) + J * Kinv * x2 * x2 + x2 * Kinv * Kinv) % p
    if legendre(gx1, p) >= 0:
        x, y = x1, _sqrt_any(gx1, p)
        if sgn0(y, p) != 1:
            y = (-y) % p
    else:
        x, y = x2, _sqrt_any(gx2, p)
        if sgn0(y, p) != 0:
            y = (-y) % p
    return (x * K % p, y * K % p)


def monty25519_to_edwards25519(s, t):
    """RFC 9380 appendix D.1 / RFC 7748 4.1 birational map with the exceptional cases mapped to (0, 1):
    (v, w) = (sqrt(-486664) * s / t, (s - 1) / (s + 1)), the square root chosen with sgn0 = 0."""
    p = P25519
    c = sqrt_mod((-486664) % p, p)
    if sgn0(c, p) != 0:
        c = (-c) % p
    if t % p == 0 or (s + 1) % p == 0:
        return (0, 1)
    v = c * s % p * pow(t, -1, p) % p
    w = (s - 1) * pow(s + 1, -1, p) % p
    return (v, w)


def hash_to_edwards25519(msg, dst, hname="sha256", sec_level=128):
    """hash_to_curve (random-oracle variant, RFC 9380 section 3) onto edwards25519 with expand_message_xmd over the
    given hash: two field elements, Elligator 2 on curve25519, birational map, add, clear the cofactor 8."""
    E = ed25519()
    L = (255 + sec_level + 7) // 8
    u0, u1 = hash_to_field(msg, dst, 2, P25519, L, hname)
    Q0 = monty25519_to_edwards25519(*elligator2_curve25519(u0))
    Q1 = monty25519_to_edwards25519(*elligator2_curve25519(u1))
    R = E.add(Q0, Q1)
    return E.mul(8, R)


# ------------------------------------------------------------------------------------------- self test

def self_test():
    E = ed25519()
    p = E.p
    assert E.is_complete()
    # RFC 8032 5.1: base point (x "positive" = even, y = 4/5), group order L, cofactor 8
    B = (ED25519_BX, ED25519_BY)
    assert ED25519_BY == ED25519_BY_DEC
    assert E.on_curve(B) and B[0] % 2 == 0
    assert E.lift_y(ED25519_BY, 0) == B
    assert E.is_neutral(E.mul(ED25519_L, B))
    assert not E.is_neutral(E.mul(ED25519_L - 1, B)) and E.eq(E.mul(ED25519_L - 1, B), E.neg(B))
    assert E.eq(E.mul(ED25519_L + 1, B), B)
    # d as printed in RFC 8032 (decimal)
    assert ED25519_D == 37095705934669439343138083508754565189542113879843219016388785533085940283555
    # encoding of B from RFC 8032 (5866666666...66 little-endian y, sign bit 0)
    assert rfc8032_encode(E, B).hex() == "58" + "66" * 31
    assert rfc8032_decode(E, bytes.fromhex("58" + "66" * 31)) == B
    # [k]P: double-and-add vs. repeated affine addition, and projective helper vs. affine law
    for k in range(-6, 20):
        assert E.eq(E.mul(k, B), E.mul_naive(k, B)), k
    P2 = E.mul(2, B)
    assert E.eq(P2, E.add(B, B)) and E.on_curve(P2)
    k = 0x1234567890ABCDEF1234567890ABCDEF1234567
    Q = E.mul(k, B)
    assert E.on_curve(Q)
    assert E.is_neutral(E.add(Q, E.mul(ED25519_L - k, B)))
    assert E.eq(E.add(E.mul(k, B), E.mul(77, B)), E.mul(k + 77, B))
    assert E.eq(E._paffine(E._padd((Q[0] * 5 % p, Q[1] * 5 % p, 5), (P2[0] * 9 % p, P2[1] * 9 % p, 9))), E.add(Q, P2))
    # torsion: order 2, order 4, order 8; the law is complete on all 8 x 8 torsion pairs and agrees with
    # the cyclic structure
    T2 = E.order2()
    assert E.on_curve(T2) and E.small_order(T2) == 2
    T4s = E.order4()
    assert len(T4s) == 2 and all(E.on_curve(T) and E.small_order(T) == 4 for T in T4s)
    assert E.eq(E.dbl(T4s[0]), T2) and E.eq(E.neg(T4s[0]), T4s[1])
    T8 = E.find_order8(ED25519_L)
    assert E.on_curve(T8) and E.small_order(T8) == 8
    tors = [E.mul_naive(j, T8) for j in range(8)]
    assert len(set(tors)) == 8 and T2 in tors and all(T in tors for T in T4s)
    for i in range(8):
        for j in range(8):
            assert E.eq(E.add(tors[i], tors[j]), tors[(i + j) % 8])
            assert E.eq(E._paffine(E._padd(tors[i] + (1,), tors[j] + (1,))), tors[(i + j) % 8])
    # mixed torsion + subgroup: order 8L
    W = E.add(Q, T8)
    assert E.is_neutral(E.mul(8 * ED25519_L, W)) and not E.is_neutral(E.mul(ED25519_L, W))
    assert not E.is_neutral(E.mul(4 * ED25519_L, W))
    # associativity / commutativity spot checks including torsion
    assert E.eq(E.add(E.add(Q, W), T4s[0]), E.add(Q, E.add(W, T4s[0])))
    assert E.eq(E.add(Q, W), E.add(W, Q))
    # expand_message_xmd (RFC 9380 appendix K.1, SHA-256, DST "QUUX-V01-CS02-with-expander-SHA256-128"):
    # the published vectors for msg = "" and msg = "abc", len_in_bytes = 0x20. They are reproduced by this
    # independent implementation, which confirms both.
    dst = b"QUUX-V01-CS02-with-expander-SHA256-128"
    assert expand_message_xmd(b"", dst, 0x20).hex() == "68a985b87eb6b46952128911f2a4412bbc302a9d759667f87f7a21d803f07235"
    assert expand_message_xmd(b"abc", dst, 0x20).hex() == "d8ccab23b5985ccea865c6c97b6e5b8350e794e603b4b97902f53a8a0d605615"
    # hash to curve: structural checks (on curve, prime-order subgroup, deterministic, depends on msg and DST)
    for msg in (b"", b"abc", b"a" * 200):
        H = hash_to_edwards25519(msg, b"RELIC")
        assert E.on_curve(H) and E.is_neutral(E.mul(ED25519_L, H))
        assert H == hash_to_edwards25519(msg, b"RELIC")
    assert hash_to_edwards25519(b"abc", b"RELIC") != hash_to_edwards25519(b"abd", b"RELIC")
    assert hash_to_edwards25519(b"abc", b"RELIC") != hash_to_edwards25519(b"abc", b"RELIC2")
    # Elligator 2 lands on curve25519 and the birational image on edwards25519, incl. u = 0 and the square-root
    # sign convention
    for u in (0, 1, 2, 3, p - 1, 0x1234567, pow(2, 200, p)):
        s, t = elligator2_curve25519(u)
        assert (t * t - (s * s * s + 486662 * s * s + s)) % p == 0
        assert E.on_curve(monty25519_to_edwards25519(s, t))

"""Reference model of RELIC's error-handling state machine (property C19), written from the property
statement and the documentation in include/relic_err.h / relic_core.h - not from the macro bodies.

Semantics modelled
  * THROW(code) sets the sticky status to "error".  Inside a protected block control transfers to the handler of
    the NEAREST enclosing TRY (every TRY has a handler: RLC_CATCH(e) stores the code into e, RLC_CATCH_ANY does
    not).  Outside any block (relic_err.h, RLC_ERR_THROW: "the error was thrown outside of a TRY-CATCH block. An
    error message is printed and the function returns"): the FIRST such error is recorded in the context
    (ctx->error / ctx->number, "Error state to be used outside try-catch blocks"), later ones are not, and
    execution simply continues.  err_get_msg() hands that recorded error out and clears it.
  * The FINALLY block of every TRY that was entered runs exactly once, whether the body completed, threw, or the
    handler threw again.  The property does not fix the ORDER of handler and finalisation; the model supports
    both (finally_first=True: finalisation, then handler;  False: handler, then finalisation as in Java) and a
    check accepts a trace that matches one of them consistently.
  * A handler may throw: a new code or ERR_CAUGHT ("an error already catched") - control goes to the next
    enclosing handler, or the unprotected rule applies.  What an into-variable handler observes after
    RLC_THROW(ERR_CAUGHT) is not documented: the model lists the admissible values (variable untouched,
    ERR_CAUGHT itself, or the code of the error that was caught).
  * After a TRY statement completes, the handler chain (ctx->last) is what it was before the statement, unless an
    unprotected throw inside its handler/finaliser recorded an error (then the chain legitimately holds that
    record).
  * err_get_code() returns "error" iff something was thrown since the last call, and resets.

Programs are nested lists:
  ["M", n] | ["T", code, leaf] | ["G"] | ["E"] | ["C", pad, seq] | ["Y", kind, body, handler, fin_or_None]
kind: 0 = RLC_CATCH(e), 1 = RLC_CATCH_ANY.  Try ids are pre-order indices assigned by number_tries().
"""

ERR_CAUGHT = 1
SENTINEL = 99
RLC_OK, RLC_ERR = 0, 1
OUTER = "outer"        # the runner's own protecting block (protected mode)
RECORD = "record"      # ctx->last == &ctx->error


class _Thrown(Exception):
    def __init__(self, code, orig, call_depth, try_depth):
        Exception.__init__(self)
        self.code = code
        self.orig = orig            # code of the error "already caught" when code == ERR_CAUGHT
        self.call_depth = call_depth
        self.try_depth = try_depth


def number_tries(seq, counter=None):
    """Assign pre-order ids to Try nodes; returns {id(node): try_id} keyed by object identity, and the count."""
    ids = {}
    n = [0]

    def walk(s):
        for node in s:
            if node[0] == "Y":
                ids[id(node)] = n[0]
                n[0] += 1
                walk(node[2])
                walk(node[3])
                if node[4] is not None:
                    walk(node[4])
            elif node[0] == "C":
                walk(node[2])
    walk(seq)
    return ids, n[0]


def serialise(seq):
    """Byte encoding understood by engine/shim/b_err.c (seq := u16 bytelen, node*)."""
    ids, _ = number_tries(seq)

    def enc_seq(s):
        body = b"".join(enc(n) for n in s)
        if len(body) > 0xFFFF:
            raise ValueError("program too large")
        return len(body).to_bytes(2, "little") + body

    def enc(n):
        t = n[0]
        if t == "M":
            return bytes([1, n[1] & 0xFF])
        if t == "T":
            return bytes([2, (n[1] & 0x7F) | (0x80 if n[2] else 0)])
        if t == "G":
            return bytes([3])
        if t == "E":
            return bytes([4])
        if t == "C":
            return bytes([5, n[1] & 0xFF]) + enc_seq(n[2])
        if t == "Y":
            kind = (n[1] & 1) | (2 if n[4] is not None else 0)
            out = bytes([6, kind]) + ids[id(n)].to_bytes(2, "little") + enc_seq(n[2]) + enc_seq(n[3])
            if n[4] is not None:
                out += enc_seq(n[4])
            return out
        raise ValueError("bad node %r" % (n,))
    return enc_seq(seq)


class Model:
    """Executes a program under the documented semantics and produces the expected event trace.

    Events: ("M", n) ("T", code) ("G", code) ("E", number) ("e",) ("C", depth) ("c", depth) ("B", id)
            ("H", id, allowed_values or None for catch-any) ("F", id) ("R", id, chain_restored) and a final
            ("L", last_class, number, sticky_code) or ("X", allowed_codes) when the program left through the
            runner's own handler (protected mode)."""

    def __init__(self, protected, finally_first=True, quirk_global_caught=False):
        self.protected = protected
        self.finally_first = finally_first
        self.quirk = quirk_global_caught      # diagnosis only: "caught" kept in ONE context-wide flag
        self.stack = [OUTER] if protected else []
        self.recorded = False
        self.number = 0
        self.code = RLC_OK
        self.trace = []
        self.call_depth = 0
        self.handler_exc = []                 # effective codes of the handlers we are dynamically inside
        self.caught_flag = False
        self.uid = 0
        # statistics for the non-triviality rule / labels
        self.max_try_depth = 0
        self.frame_crossings = 0              # throws caught by a Try that is >= 1 Call frame further out
        self.max_frames_crossed = 0
        self.caught_at_depth = {}
        self.unprotected_throws = 0
        self.rethrows = 0
        self.handler_new_throws = 0
        self.fin_runs = {}
        self.entered = {}
        self.has_fin = {}
        self.ids = {}

    # -- helpers
    def last(self):
        if self.stack:
            return self.stack[-1]
        return RECORD if self.recorded else None

    def emit(self, *e):
        self.trace.append(tuple(e))

    def try_depth(self):
        return len(self.stack) - (1 if self.protected else 0)

    # -- execution
    def run(self, seq):
        self.ids, _ = number_tries(seq)
        try:
            self.seq(seq)
        except _Thrown as t:
            # only possible in protected mode: the runner's handler receives it
            allowed = {t.code} if t.code != ERR_CAUGHT else {0, ERR_CAUGHT} | ({t.orig} if t.orig else set())
            self.emit("X", frozenset(allowed))
            return self.trace
        l = self.last()
        cls = 0 if l is None else (1 if l == RECORD else 2)
        self.emit("L", cls, self.number if cls == 1 else 0, self.code)
        return self.trace

    def seq(self, s):
        for n in s:
            self.node(n)

    def throw(self, code):
        self.emit("T", code)
        self.code = RLC_ERR
        if self.stack:
            orig = None
            if code == ERR_CAUGHT:
                orig = self.handler_exc[-1] if self.handler_exc else None
                self.rethrows += 1
            elif self.handler_exc:
                self.handler_new_throws += 1
            raise _Thrown(code, orig, self.call_depth, self.try_depth())
        self.unprotected_throws += 1
        if not self.recorded:
            self.recorded = True
            self.number = code
        # execution continues

    def node(self, n):
        t = n[0]
        if t == "M":
            self.emit("M", n[1])
        elif t == "T":
            self.throw(n[1])
        elif t == "G":
            self.emit("G", self.code)
            self.code = RLC_OK
        elif t == "E":
            if not self.stack and self.recorded:
                self.emit("E", self.number)
                self.recorded = False
            else:
                self.emit("e")
        elif t == "C":
            self.emit("C", self.call_depth)
            self.call_depth += 1
            try:
                self.seq(n[2])
            finally:
                self.call_depth -= 1
            self.emit("c", self.call_depth)
        elif t == "Y":
            self.do_try(n)
        else:
            raise ValueError("bad node %r" % (n,))

    def do_try(self, n):
        tid = self.ids[id(n)]
        kind, body, handler, fin = n[1], n[2], n[3], n[4]
        before = self.last()
        self.uid += 1
        uid = ("blk", self.uid)
        self.emit("B", tid)
        self.entered[tid] = self.entered.get(tid, 0) + 1
        self.has_fin[tid] = fin is not None
        entry_len = len(self.stack)
        my_call_depth = self.call_depth
        self.stack.append(uid)
        self.max_try_depth = max(self.max_try_depth, self.try_depth())
        exc = None
        n_handlers = len(self.handler_exc)
        try:
            self.seq(body)
        except _Thrown as t:
            exc = t
            self.call_depth = my_call_depth
            crossed = t.call_depth - my_call_depth
            if crossed > 0:
                self.frame_crossings += 1
                self.max_frames_crossed = max(self.max_frames_crossed, crossed)
            self.caught_at_depth[t.try_depth] = self.caught_at_depth.get(t.try_depth, 0) + 1
        finally:
            del self.stack[entry_len:]
            del self.handler_exc[n_handlers:]
        self.caught_flag = exc is not None

        def run_fin():
            if fin is not None:
                self.emit("F", tid)
                self.fin_runs[tid] = self.fin_runs.get(tid, 0) + 1
                self.seq(fin)

        def run_handler():
            enter = self.caught_flag if self.quirk else (exc is not None)
            if not enter:
                return
            if exc is None:
                # quirk mode only: handler entered although nothing was thrown in this block
                allowed, eff = frozenset({SENTINEL}), None
            elif exc.code != ERR_CAUGHT:
                allowed, eff = frozenset({exc.code}), exc.code
            else:
                allowed = frozenset({SENTINEL, ERR_CAUGHT} | ({exc.orig} if exc.orig else set()))
                eff = exc.orig
            self.emit("H", tid, allowed if kind == 0 else None)
            self.handler_exc.append(eff)
            try:
                self.seq(handler)
            finally:
                del self.handler_exc[n_handlers:]

        if self.finally_first:
            run_fin()
            run_handler()
        else:
            try:
                run_handler()
            finally:
                # Java order: the finaliser runs even when the handler throws, then the throw continues
                run_fin()
        self.emit("R", tid, 1 if self.last() == before else 0)


def match(real, model):
    """Compare a decoded real trace with a model trace. Returns None when equal, else (index, real, expected)."""
    for i in range(max(len(real), len(model))):
        if i >= len(real):
            return (i, None, model[i])
        if i >= len(model):
            return (i, real[i], None)
        r, m = real[i], model[i]
        if r[0] != m[0]:
            return (i, r, m)
        if m[0] == "H":
            if r[1] != m[1]:
                return (i, r, m)
            if m[2] is None:
                if r[2] is not None:
                    return (i, r, m)
            elif r[2] not in m[2]:
                return (i, r, m)
        elif m[0] == "X":
            if r[1] not in m[1]:
                return (i, r, m)
        elif tuple(r) != tuple(m):
            return (i, r, m)
    return None


def check_invariants(m):
    """Statement-level invariants on a model run (used by the self test): every entered Try with a finaliser
    ran it exactly once, unless the program was still inside it when it left through the outer handler."""
    for tid, n in m.entered.items():
        if m.has_fin[tid] and m.fin_runs.get(tid, 0) != n:
            return "try %d entered %d times, finaliser ran %d times" % (tid, n, m.fin_runs.get(tid, 0))
    return None


def self_test():
    M, T, G, E = (lambda n: ["M", n]), (lambda c, leaf=0: ["T", c, leaf]), ["G"], ["E"]

    def Y(kind, body, handler, fin=None):
        return ["Y", kind, body, handler, fin]

    def C(s):
        return ["C", 0, s]

    # 1. test_err.c shape 1: throw outside any block, deep in a call chain; code sticky; message fetched once
    p = [C([C([T(2)]), M(1)]), G, E, G]
    tr = Model(False).run(p)
    assert tr == [("C", 0), ("C", 1), ("T", 2), ("c", 1), ("M", 1), ("c", 0), ("G", 1), ("E", 2), ("G", 0),
                  ("L", 0, 0, 0)], tr
    # 2. shape 2: try { call chain throws } catch(e)
    p = [Y(0, [C([C([T(2), M(9)])]), M(8)], [M(1)])]
    tr = Model(False).run(p)
    assert tr == [("B", 0), ("C", 0), ("C", 1), ("T", 2), ("H", 0, frozenset({2})), ("M", 1), ("R", 0, 1),
                  ("L", 0, 0, 1)], tr
    # 3. shape 3/4 (dummy3/dummy4): inner try/catch-any rethrows ERR_CAUGHT with finally, outer catch(e)
    inner = Y(1, [T(2)], [T(1)], [M(7)])
    p = [Y(0, [C([inner]), M(5)], [M(1)]), G, G]
    tr = Model(False, finally_first=True).run(p)
    assert tr == [("B", 0), ("C", 0), ("B", 1), ("T", 2), ("F", 1), ("M", 7), ("H", 1, None), ("T", 1),
                  ("H", 0, frozenset({99, 1, 2})), ("M", 1), ("R", 0, 1), ("G", 1), ("G", 0), ("L", 0, 0, 0)], tr
    tr = Model(False, finally_first=False).run(p)
    assert tr == [("B", 0), ("C", 0), ("B", 1), ("T", 2), ("H", 1, None), ("T", 1), ("F", 1), ("M", 7),
                  ("H", 0, frozenset({99, 1, 2})), ("M", 1), ("R", 0, 1), ("G", 1), ("G", 0), ("L", 0, 0, 0)], tr
    # 4. no error: body, finaliser, no handler
    p = [Y(0, [M(1)], [M(2)], [M(3)])]
    assert Model(True).run(p) == [("B", 0), ("M", 1), ("F", 0), ("M", 3), ("R", 0, 1), ("L", 2, 0, 0)]
    # 5. unprotected: first error recorded, second not, execution continues; a Try afterwards still works and
    #    leaves the record in place; a handler that throws with no enclosing block continues
    p = [T(6), M(1), T(7), Y(0, [T(8), M(2)], [M(3), T(1), M(4)]), E, T(9), E]
    tr = Model(False).run(p)
    assert tr == [("T", 6), ("M", 1), ("T", 7), ("B", 0), ("T", 8), ("H", 0, frozenset({8})), ("M", 3), ("T", 1),
                  ("M", 4), ("R", 0, 1), ("E", 6), ("T", 9), ("E", 9), ("L", 0, 0, 1)], tr
    # 6. handler throwing with nothing recorded before: the chain is not what it was (record installed)
    p = [Y(1, [T(3)], [T(4)])]
    tr = Model(False).run(p)
    assert tr == [("B", 0), ("T", 3), ("H", 0, None), ("T", 4), ("R", 0, 0), ("L", 1, 4, 1)], tr
    # 7. protected mode: escaping throw reaches the runner's handler; nothing after it runs
    p = [Y(0, [T(5)], [M(1), T(6), M(2)], [M(3)]), M(4)]
    tr = Model(True).run(p)
    assert tr == [("B", 0), ("T", 5), ("F", 0), ("M", 3), ("H", 0, frozenset({5})), ("M", 1), ("T", 6),
                  ("X", frozenset({6}))], tr
    tr = Model(True, finally_first=False).run(p)
    assert tr == [("B", 0), ("T", 5), ("H", 0, frozenset({5})), ("M", 1), ("T", 6), ("F", 0), ("M", 3),
                  ("X", frozenset({6}))], tr
    # 8. nearest handler only: the inner handler falls out, the outer one never runs, body of outer continues
    p = [Y(0, [Y(0, [C([T(2)])], [M(1)]), M(2)], [M(3)], [M(4)])]
    tr = Model(True).run(p)
    assert tr == [("B", 0), ("B", 1), ("C", 0), ("T", 2), ("H", 1, frozenset({2})), ("M", 1), ("R", 1, 1), ("M", 2),
                  ("F", 0), ("M", 4), ("R", 0, 1), ("L", 2, 0, 1)], tr
    # 9. a protected block inside a finaliser: the pending error of the outer block still reaches its handler
    p = [Y(0, [T(2)], [M(1)], [Y(1, [M(5)], [M(6)])])]
    tr = Model(True).run(p)
    assert tr == [("B", 0), ("T", 2), ("F", 0), ("B", 1), ("M", 5), ("R", 1, 1), ("H", 0, frozenset({2})), ("M", 1),
                  ("R", 0, 1), ("L", 2, 0, 1)], tr
    trq = Model(True, quirk_global_caught=True).run(p)
    assert ("H", 0, frozenset({2})) not in trq
    for prog in (p,):
        m = Model(True)
        m.run(prog)
        assert check_invariants(m) is None
    # serialisation round numbers
    b = serialise([M(1), Y(0, [T(2, 1)], [G], [E]), C([M(3)])])
    assert b[:2] == (len(b) - 2).to_bytes(2, "little")
    assert match([("H", 0, 5)], [("H", 0, frozenset({5}))]) is None
    assert match([("H", 0, 6)], [("H", 0, frozenset({5}))]) is not None
    return True


if __name__ == "__main__":
    self_test()
    print("errsm self-test ok")

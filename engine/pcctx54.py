"""Context for the embedding-degree-54 pairing pp_map_k54 (SG54_P569, configuration pf-569).

The pairing layer (pc_*, g2_*, gt_*) is not wired for this degree (include/relic_pc.h maps 569 bits to the k = 12 types),
there is no curve type over Fp9 and no G2 generator: pp_map_k54(r, P, qx, qy) takes a G1 point and bare Fp9 coordinates.
The reference side therefore consists of
  * the base curve context of engine.ecctx (G1, r, cofactor; selected with ep_param_set),
  * the cubic tower Fp3 - Fp9 - Fp18 - Fp54 of engine.ref.ext built from parameters read from the library, every level
    verified to be a field,
  * the twist E'(Fp9): y^2 = x^3 + b' through the one published point Q0 (engine/ref/sg54.py), accepted only when the
    reference finds [r]Q0 = O and Q0 != O on that curve; further G2 points are reference multiples of Q0."""
import struct

from . import ecctx
from .core import Unsupported, Violation
from .pcctx_g import GTField
from .ref import ec as rec
from .ref import ext as rext
from .ref import sg54

_CACHE = {}


class Ctx54:
    pass


def _fp_list(F, blob):
    nb = F.nbytes
    return [F.dec(blob[i * nb:(i + 1) * nb])[0] for i in range(len(blob) // nb)]


def discover(env, cfg):
    if cfg in _CACHE:
        return _CACHE[cfg]
    _CACHE[cfg] = None
    r = env.runner(cfg)
    if "pp_map_k54" not in r.ops() or "tower_params" not in r.ops():
        return None
    base = ecctx.discover(env, cfg)
    cs = [c for c in base["curves"] if c.is_pairf and c.embed == 54]
    if not cs:
        return None
    c = cs[0]
    F = c.F

    def build(p):
        p.call("tower_params")
    res, _ = ecctx.run(env, cfg, c.cid, build, 0x5A)
    tp = res.calls[0]
    if tp.errored or tp.unsupported:
        return None
    qnr, cnr = tp.ret_i(0), tp.ret_i(1)
    E2 = tuple(_fp_list(F, tp.blobs[0]))
    E3 = tuple(_fp_list(F, tp.blobs[1]))
    if not cnr or not any(E3):
        return None
    T = rext.build_tower(F.p, qnr if qnr else None, cnr, E2 if qnr else None, E3)
    if 54 not in T:
        return None
    for N in (3, 9, 18, 54):
        Fn = T[N]
        K = Fn.K
        if not isinstance(K, rext.Ext) or K.deg <= 3:
            ok = Fn.irreducible()
        elif Fn.d == 2:
            ok = not K.is_square_norm(Fn.nr)
        else:
            qk = K.p ** K.deg
            fl = rext.Flat(K)
            ok = (qk - 1) % 3 == 0 and fl.pow(fl.from_tower(Fn.nr), (qk - 1) // 3) != fl.one
        if not ok:
            raise Violation("SG54: the tower level %s read from the library is not a field" % Fn.name)
    x = Ctx54()
    x.base, x.cid, x.F, x.T, x.r, x.G1 = c, c.cid, F, T, c.n, c.G
    x.F9, x.FT, x.kemb, x.ttype = T[9], GTField(T[54]), 54, 0
    p = F.p
    qx = x.F9.unflatten([v % p for v in sg54.QX])
    qy = x.F9.unflatten([v % p for v in sg54.QY])
    F9 = x.F9
    b9 = F9.sub(F9.mul(qy, qy), F9.mul(F9.mul(qx, qx), qx))
    x.E9 = rec.Curve(F9, F9.zero, b9)
    x.Q0 = (qx, qy)
    if F9.is_zero(b9) or x.E9.mul(x.r, x.Q0) is not None:
        raise Violation("SG54: the published G2 vector is not a point of order r on a curve y^2 = x^3 + b' over Fp9 "
                        "(reference check)")
    x._q = {}
    _CACHE[cfg] = x
    return x


def job_ctx(env, cfg):
    x = discover(env, cfg)
    if x is None:
        raise Unsupported()
    return x


def run(env, cfg, x, builder, poison):
    return ecctx.run(env, cfg, x.cid, builder, poison)


def g2mul(x, m):
    m %= x.r
    if m == 0:
        return None
    if m not in x._q:
        if len(x._q) > 200:
            x._q.clear()
        k = m if m <= x.r // 2 else m - x.r
        x._q[m] = x.E9.mul(k, x.Q0)
    return x._q[m]


def enc_fpx(x, N, flat):
    F = x.F
    body = b"".join(F.to_raw_int(v).to_bytes(F.nbytes, "little") for v in flat)
    return bytes([N]) + struct.pack("<I", len(body)) + body


def enc_q(x, Q):
    """(qx, qy) slots of pp_map_k54; the identity is the pair (0, 0) (what the function itself tests for)"""
    if Q is None:
        z = [0] * 9
        return enc_fpx(x, 9, z), enc_fpx(x, 9, z)
    return enc_fpx(x, 9, x.F9.flatten(Q[0])), enc_fpx(x, 9, x.F9.flatten(Q[1]))


def enc_gt(x, a):
    return enc_fpx(x, 54, x.FT.flatten(a))


def dec_gt(x, blob, what):
    F = x.F
    nb = F.nbytes
    vals = []
    for j in range(54):
        v, raw = F.dec(blob[j * nb:(j + 1) * nb])
        if v is None:
            raise Violation("%s: GT coefficient not canonical (raw >= p)" % what, raw=raw)
        vals.append(v)
    return x.FT.unflatten(vals)

"""Python side of the runner protocol (see engine/shim/vs.h)."""
import os
import struct
import subprocess
import tempfile
import time

from . import build

VT = dict(NONE=0, BN=1, BUF=2, FP=3, FPX=4, EP=5, EP2=6, EB=7, ED=8, FB=9, DV=10, BNV=11, EPV=12, GT=13,
          EP3=14, EP4=15, EP8=16, FB2=17, EP2V=18, EBV=19, EDV=20, FPV=21, GTV=22, OPAQUE=23, FPXV=24)
VT_NAME = {v: k for k, v in VT.items()}

NULL = (1 << 64) - 1

ERR = dict(ERR_CAUGHT=1, ERR_NO_MEMORY=2, ERR_NO_PRECI=3, ERR_NO_FILE=4, ERR_NO_READ=5, ERR_NO_VALID=6,
           ERR_NO_BUFFER=7, ERR_NO_FIELD=8, ERR_NO_CURVE=9, ERR_NO_CONFIG=10, ERR_NO_RAND=11)
ERR_NAME = {v: k for k, v in ERR.items()}
RLC_OK, RLC_ERR = 0, 1
RLC_LT, RLC_EQ, RLC_GT, RLC_NE = -1, 0, 1, 2
RLC_POS, RLC_NEG = 0, 1


class HarnessError(Exception):
    """The harness (not the library) is broken: protocol error, build failure, oracle self-test."""


class RunnerCrash(Exception):
    def __init__(self, why, stderr_tail, rc):
        Exception.__init__(self, why)
        self.why = why
        self.stderr_tail = stderr_tail
        self.rc = rc


class BnRaw:
    __slots__ = ("sign", "used", "alloc", "digbytes", "digits")

    def __init__(self, sign, used, alloc, digbytes, digits):
        self.sign, self.used, self.alloc, self.digbytes, self.digits = sign, used, alloc, digbytes, digits

    @property
    def mag(self):
        v = 0
        for i, d in enumerate(self.digits):
            v |= d << (8 * self.digbytes * i)
        return v

    @property
    def value(self):
        m = self.mag
        return -m if self.sign == RLC_NEG else m

    def normal_form_error(self):
        """None if the representation is normalised, else a description."""
        if self.used < 1:
            return "used=%d < 1" % self.used
        if self.used > self.alloc:
            return "used=%d > alloc=%d" % (self.used, self.alloc)
        if self.sign not in (RLC_POS, RLC_NEG):
            return "sign=%d" % self.sign
        if self.mag == 0:
            if self.used != 1:
                return "zero with used=%d" % self.used
            if self.sign != RLC_POS:
                return "negative zero"
        elif self.digits[self.used - 1] == 0:
            return "leading zero digit (used=%d)" % self.used
        return None

    def __repr__(self):
        return "BnRaw(sign=%d used=%d value=%#x)" % (self.sign, self.used, self.value)


def enc_bn(x):
    m = abs(x)
    mag = m.to_bytes((m.bit_length() + 7) // 8, "little")
    return bytes([1 if x < 0 else 0]) + struct.pack("<I", len(mag)) + mag


class Prog:
    """Builder for one request."""

    def __init__(self, poison=0xA5, seed=b"", unprotected=False, keep=False, noscribble=False):
        flags = (1 if unprotected else 0) | (4 if keep else 0) | (8 if noscribble else 0)
        self.parts = [bytes([poison & 0xFF, flags]), struct.pack("<I", len(seed)), seed]
        self.next_slot = 0
        self.ncalls = 0
        self.names = []

    def slot(self):
        s = self.next_slot
        self.next_slot += 1
        if s >= 96:
            raise HarnessError("too many slots")
        return s

    def new(self, vtype, payload, slot=None):
        s = self.slot() if slot is None else slot
        self.parts.append(b"N" + bytes([VT[vtype], s]) + payload)
        return s

    def bn(self, x, slot=None):
        return self.new("BN", enc_bn(x), slot)

    def bnv(self, xs, slot=None):
        return self.new("BNV", struct.pack("<I", len(xs)) + b"".join(enc_bn(x) for x in xs), slot)

    def buf(self, data, slot=None):
        return self.new("BUF", struct.pack("<I", len(data)) + bytes(data), slot)

    def call(self, name, *args):
        nb = name.encode()
        a = b"".join(struct.pack("<Q", x & ((1 << 64) - 1)) for x in args)
        self.parts.append(b"C" + struct.pack("<I", len(nb)) + nb + bytes([len(args)]) + a)
        self.names.append(name)
        self.ncalls += 1
        return self.ncalls - 1

    def dump(self, slot):
        self.parts.append(b"D" + bytes([slot]))

    def free(self, slot):
        self.parts.append(b"F" + bytes([slot]))

    def listops(self):
        self.parts.append(b"L")

    def encode(self):
        return b"".join(self.parts) + b"E"


class CallRes:
    __slots__ = ("name", "status", "e", "code", "first", "ub", "changed", "rets", "blobs")

    @property
    def caught(self):
        return self.status == 1

    @property
    def unsupported(self):
        return self.status == 2

    @property
    def errored(self):
        """an error is observable by the caller (caught exception or sticky code)"""
        return self.status == 1 or self.code == RLC_ERR

    def ret_i(self, i):
        v = self.rets[i]
        return v - (1 << 64) if v >> 63 else v

    def __repr__(self):
        return "CallRes(%s status=%d e=%s code=%d ub=%r changed=%r rets=%r)" % (
            self.name, self.status, ERR_NAME.get(self.e, self.e), self.code, self.ub, sorted(self.changed), self.rets)


class Result:
    def __init__(self):
        self.calls = []
        self.dumps = {}
        self.failed_new = []
        self.ops = None

    def ub_reports(self):
        out = []
        for c in self.calls:
            out.extend(c.ub)
        return out


class _Rd:
    def __init__(self, b):
        self.b = b
        self.i = 0

    def u8(self):
        v = self.b[self.i]
        self.i += 1
        return v

    def u32(self):
        v = struct.unpack_from("<I", self.b, self.i)[0]
        self.i += 4
        return v

    def u64(self):
        v = struct.unpack_from("<Q", self.b, self.i)[0]
        self.i += 8
        return v

    def raw(self, n):
        v = self.b[self.i:self.i + n]
        if len(v) != n:
            raise HarnessError("short reply")
        self.i += n
        return v

    def blob(self):
        return self.raw(self.u32())


def _dec_bn(r):
    sign, used, alloc = r.u32(), r.u32(), r.u32()
    db = r.u8()
    n = r.u32()
    raw = r.raw(n * db)
    digits = [int.from_bytes(raw[i * db:(i + 1) * db], "little") for i in range(n)]
    if sign >= 1 << 31:
        sign -= 1 << 32
    return BnRaw(sign, used, alloc, db, digits)


DUMP_DECODERS = {}


def decode(reply, prog):
    r = _Rd(reply)
    res = Result()
    ci = 0
    while True:
        t = r.u8()
        if t == ord("E"):
            break
        if t == ord("X"):
            raise HarnessError("runner reported a protocol error")
        if t == ord("n"):
            res.failed_new.append(r.u8())
        elif t == ord("L"):
            res.ops = set(r.blob().decode().split())
        elif t == ord("C"):
            c = CallRes()
            c.name = prog.names[ci] if ci < len(prog.names) else "?"
            ci += 1
            c.status = r.u8()
            c.e = c.code = c.first = 0
            c.ub, c.changed, c.rets, c.blobs = [], set(), [], []
            if c.status != 2:
                c.e, c.code, c.first = r.u32(), r.u32(), r.u32()
                c.ub = [r.blob().decode(errors="replace") for _ in range(r.u8())]
                lo, hi = r.u64(), r.u64()
                m = lo | (hi << 64)
                c.changed = {i for i in range(96) if (m >> i) & 1}
                c.rets = [r.u64() for _ in range(r.u8())]
                c.blobs = [r.blob() for _ in range(r.u8())]
            res.calls.append(c)
        elif t == ord("D"):
            idx, vt = r.u8(), r.u8()
            if vt == VT["NONE"]:
                res.dumps[idx] = None
            elif vt == VT["BN"]:
                res.dumps[idx] = _dec_bn(r)
            elif vt == VT["BNV"]:
                res.dumps[idx] = [_dec_bn(r) for _ in range(r.u32())]
            elif vt == VT["BUF"]:
                res.dumps[idx] = r.blob()
            elif vt in DUMP_DECODERS:
                res.dumps[idx] = DUMP_DECODERS[vt](r)
            else:
                # convention: every registered extension type dumps exactly one blob
                res.dumps[idx] = r.blob()
        else:
            raise HarnessError("bad reply tag %r" % t)
    return res


class Runner:
    """One runner process of one build configuration. A crash raises RunnerCrash and the next
    call transparently starts a fresh process."""

    _UIDS = __import__("itertools").count(1)

    def __init__(self, cfg, timeout=60.0, env=None, recycle=20000):
        # identity for "what is selected in this runner process" caches: id(obj) is reused by Python for the Runner of
        # the next Env in the same process (the 3x confirmation replays), a serial number is not
        self.uid = next(Runner._UIDS)
        self.cfg = cfg
        self.exe = build.ensure(cfg)
        self.timeout = timeout
        self.env = env or {}
        self.proc = None
        self.errf = None
        self.ncases = 0
        self.recycle = recycle
        self.starts = 0
        self._ops = None

    def _start(self):
        self.close()
        env = dict(os.environ)
        env["ASAN_OPTIONS"] = "detect_leaks=0:abort_on_error=0:exitcode=77:allocator_may_return_null=1:" \
                              "detect_stack_use_after_return=0:handle_abort=1:symbolize=1"
        env["UBSAN_OPTIONS"] = "print_stacktrace=1:halt_on_error=1:exitcode=76"
        env["MSAN_OPTIONS"] = "exitcode=78"
        env["TSAN_OPTIONS"] = "exitcode=79:halt_on_error=1"
        env.update(self.env)
        self.errf = tempfile.TemporaryFile(prefix="vs_err_", dir=os.path.join(build.VERIF, ".work"))
        self.proc = subprocess.Popen([self.exe], stdin=subprocess.PIPE, stdout=subprocess.PIPE, stderr=self.errf,
                                     env=env, bufsize=0)
        self.ncases = 0
        self.starts += 1

    def close(self):
        if self.proc is not None:
            try:
                self.proc.stdin.close()
            except Exception:
                pass
            try:
                self.proc.kill()
            except Exception:
                pass
            try:
                self.proc.wait(timeout=5)
            except Exception:
                pass
            try:
                self.proc.stdout.close()
            except Exception:
                pass
            self.proc = None
        if self.errf is not None:
            self.errf.close()
            self.errf = None

    def _stderr_tail(self, n=6000):
        try:
            self.errf.flush()
            sz = self.errf.seek(0, 2)
            self.errf.seek(max(0, sz - n))
            return self.errf.read().decode(errors="replace")
        except Exception:
            return ""

    def _read(self, n, deadline):
        import select
        out = b""
        fd = self.proc.stdout.fileno()
        while len(out) < n:
            left = deadline - time.time()
            if left <= 0:
                raise TimeoutError()
            rl, _, _ = select.select([fd], [], [], min(left, 5.0))
            if not rl:
                if self.proc.poll() is not None:
                    return None
                continue
            chunk = os.read(fd, n - len(out))
            if not chunk:
                return None
            out += chunk
        return out

    def will_restart(self):
        """True when the next run() starts a fresh runner process (same condition as in run())"""
        return self.proc is None or self.proc.poll() is not None or self.ncases >= self.recycle

    def epoch(self):
        """identity of the runner PROCESS the next request will be executed by: (serial of this Runner, number of the
        process). Selection caches key on it, so that 'selected' is remembered exactly as long as the process lives
        (keying on the count BEFORE the first spawn made every runner select its parameter set twice)."""
        return (self.uid, self.starts + (1 if self.will_restart() else 0))

    def run(self, prog, timeout=None):
        if self.proc is None or self.proc.poll() is not None or self.ncases >= self.recycle:
            self._start()
        self.ncases += 1
        req = prog.encode()
        # keep stderr files small
        if self.ncases % 2000 == 0:
            try:
                self.errf.truncate(0)
                self.errf.seek(0)
            except Exception:
                pass
        deadline = time.time() + (timeout or self.timeout)
        try:
            self.proc.stdin.write(struct.pack("<I", len(req)) + req)
            hdr = self._read(4, deadline)
            body = self._read(struct.unpack("<I", hdr)[0], deadline) if hdr is not None else None
        except TimeoutError:
            tail = self._stderr_tail()
            self.close()
            raise RunnerCrash("timeout", tail, None)
        except (BrokenPipeError, OSError):
            body = None
        if body is None:
            rc = None
            try:
                rc = self.proc.wait(timeout=10)
            except Exception:
                pass
            tail = self._stderr_tail()
            self.close()
            if rc == 3 or "VS-HARNESS-ERROR" in tail:
                raise HarnessError("runner harness error: " + tail[-800:])
            raise RunnerCrash("crash", tail, rc)
        return decode(body, prog)

    def ops(self):
        if self._ops is None:
            p = Prog()
            p.listops()
            self._ops = self.run(p).ops
        return self._ops

    def info(self, name):
        p = Prog()
        p.call(name)
        r = self.run(p)
        return r.calls[0].rets


def sanitizer_signature(stderr_tail):
    """Condense a sanitizer report to (kind, top frames in the library) for matching / display."""
    import re
    kind = None
    m = re.search(r"ERROR: (\w+Sanitizer): ([\w-]+)", stderr_tail)
    if m:
        kind = m.group(1) + ":" + m.group(2)
    else:
        m = re.search(r"([\w./-]+):(\d+):\d+: runtime error: ([^\n]*)", stderr_tail)
        if m:
            f = m.group(1)
            q = f.find("/src/")
            if q < 0:
                q = f.find("/include/")
            kind = "UBSan|%s:%s|%s" % (f[q + 1:] if q >= 0 else os.path.basename(f), m.group(2), m.group(3)[:120])
    frames = re.findall(r"#\d+ 0x[0-9a-f]+ in (\w+) ([^\s]+)", stderr_tail)
    lib = []
    for fn, loc in frames:
        if fn.startswith("__") or fn.startswith("vs_") or fn in ("main", "do_call"):
            continue
        q = loc.find("/src/")
        lib.append("%s@%s" % (fn, loc[q + 1:] if q >= 0 else os.path.basename(loc)))
        if len(lib) >= 6:
            break
    return kind, lib

"""Edwards-curve contexts for C17 (and C18): discovery of the selectable parameter sets by probing ed_param_set,
curve selection with caching, point transport (raw x, y, z, t, coord)."""
import struct

from .core import Unsupported, Violation
from .proto import Prog
from .ref import edwards as red
from .ref import fp as rfp

_CACHE = {}


class EdCtx:
    pass


def _blob_int(b):
    return int.from_bytes(b, "little")


def _garbage(nbytes, byte):
    return bytes([byte & 0xFF]) * nbytes


def discover(env, cfg):
    if cfg in _CACHE:
        return _CACHE[cfg]
    r = env.runner(cfg)
    if "ed_param_set" not in r.ops() or "info_fp" not in r.ops():
        raise Unsupported()
    inf_fp = r.info("info_fp")
    inf = r.info("info_ed")
    bits, digs, W, rdc = inf_fp[0], inf_fp[1], inf_fp[2], inf_fp[3]
    monty = rdc == inf_fp[12]
    nbytes = W * digs // 8
    curves = []
    rejected = []
    for cid in range(0, 16):
        p = Prog()
        p.call("ed_param_set", cid)
        sn, sh = p.bn(0), p.bn(0)
        sg = p.new("ED", struct.pack("<I", 4 * nbytes + 4) + bytes(4 * nbytes) + struct.pack("<I", 1))
        p.call("ed_curve_params", sn, sh, sg)
        p.call("fp_prime_get")
        p.call("ed_param_get")
        p.call("ed_param_level")
        p.dump(sn), p.dump(sh), p.dump(sg)
        res = r.run(p)
        if res.calls[0].errored:
            rejected.append(cid)
            continue
        c = EdCtx()
        c.cid = cid
        prime = _blob_int(res.calls[2].blobs[0])
        pc = res.calls[1]
        c.fid = pc.rets[0]
        c.has_tab = bool(pc.rets[1])
        c.F = rfp.Field(c.fid, prime, W, digs, monty)
        c.p = prime
        c.a = c.F.dec(pc.blobs[0])[0]
        c.d = c.F.dec(pc.blobs[1])[0]
        c.map_c = [c.F.dec(b)[0] for b in pc.blobs[2:6]]
        c.r = res.dumps[sn].value
        c.h = res.dumps[sh].value
        c.param_get = res.calls[3].ret_i(0)
        c.level = res.calls[4].ret_i(0)
        c.E = red.Curve(prime, c.a, c.d)
        c.inf = inf
        c.BASIC, c.PROJC, c.EXTND, c.ED_ADD = inf[0], inf[1], inf[2], inf[3]
        c.extnd = c.ED_ADD == c.EXTND
        c.add_name = {c.BASIC: "basic", c.PROJC: "projc", c.EXTND: "extnd"}[c.ED_ADD]
        c.fp_bits, c.fp_bytes = inf[27], inf[26]
        c.width, c.depth = inf[10], inf[11]
        c.tab = dict(basic=inf[4], combs=inf[5], combd=inf[6], lwnaf=inf[7], max=inf[8], cur=inf[9])
        c.md_sha256 = inf[29] == inf[30]
        c.bn_bits = inf[34]
        (G, meta) = dec_point(c, res.dumps[sg], "generator", check_t=c.extnd)
        c.G = G
        # minimal sanity so that a corrupted parameter table cannot make both sides agree silently
        # (C18 validates the parameters in depth)
        E = c.E
        if c.a is None or c.d is None or not E.is_complete():
            raise Violation("curve %d: (a, d) not a complete twisted Edwards curve (a square, d non-square)" % cid, cid=cid)
        if not E.on_curve(G) or E.is_neutral(G) or not E.is_neutral(E.mul(c.r, G)):
            raise Violation("curve %d: generator/order inconsistent (reference check)" % cid, cid=cid)
        if c.h != 8 or c.param_get != cid:
            raise Violation("curve %d: cofactor %d / ed_param_get %d unexpected" % (cid, c.h, c.param_get), cid=cid)
        # torsion: the full group is cyclic of order 8r = <G> x <T8>
        c.T8 = E.find_order8(c.r)
        c.tors = [E.mul_naive(j, c.T8) for j in range(8)]
        if E.order2() != c.tors[4] or sorted(E.order4()) != sorted([c.tors[2], c.tors[6]]):
            raise Violation("curve %d: torsion structure unexpected (reference check)" % cid, cid=cid)
        c._small = {}
        curves.append(c)
    _CACHE[cfg] = dict(curves=curves, inf=inf, inf_fp=inf_fp, cur=None, nbytes=nbytes, bits=bits, W=W,
                       rejected=rejected)
    return _CACHE[cfg]


def has_curve(env, cfg):
    try:
        return bool(discover(env, cfg)["curves"])
    except Unsupported:
        return False


def curve(env, cfg, cid):
    for c in discover(env, cfg)["curves"]:
        if c.cid == cid:
            return c
    raise Unsupported()


def job_curve(env, cfg):
    cs = discover(env, cfg)["curves"]
    if not cs:
        raise Unsupported()
    return cs[(env.job_seed // 7) % len(cs)]


def select(env, cfg, prog, cid):
    ctx = discover(env, cfg)
    r = env.runner(cfg)
    key = r.epoch()
    if ctx["cur"] != (key, cid):
        prog.call("ed_param_set", cid)
        ctx["cur"] = (key, cid)
        return 1
    return 0


def invalidate(env, cfg):
    if cfg in _CACHE:
        _CACHE[cfg]["cur"] = None


def run(env, cfg, cid, prog_builder, poison, seed=b""):
    """Build and run a program on curve cid; returns (result-with-selection-call-stripped, meta)."""
    p = Prog(poison=poison, seed=seed)
    skip = select(env, cfg, p, cid)
    meta = prog_builder(p)
    try:
        res = env.runner(cfg).run(p)
    except Exception:
        invalidate(env, cfg)
        raise
    if res.failed_new:
        raise Unsupported()
    if skip and res.calls[0].errored:
        invalidate(env, cfg)
        raise Violation("ed_param_set(%d) failed on re-selection" % cid)
    res.calls = res.calls[skip:]
    return res, meta


# ------------------------------------------------------------------------------------ point transport

def enc_raw(c, x, y, z, t, coord):
    """Payload of an ED slot from field VALUES (t may be None = garbage bytes given by coord's low byte pattern)."""
    F = c.F
    body = b"".join(F.to_raw_int(v).to_bytes(F.nbytes, "little") for v in (x, y, z))
    if isinstance(t, bytes):
        body += t
    else:
        body += F.to_raw_int(t).to_bytes(F.nbytes, "little")
    body += struct.pack("<I", coord & 0xFFFFFFFF)
    return struct.pack("<I", len(body)) + body


def enc_point(c, P, kind="basic", z=1, tgarb=0x5A, t_valid=None):
    """Payload of an ED slot holding the affine point P.
    kind: basic (x, y, 1) | projc (xZ, yZ, Z) tagged PROJC | extnd (same, tagged EXTND).
    The t field carries T = xyZ when the build maintains it (ED_ADD == EXTND, or t_valid=True), else garbage."""
    p = c.p
    x, y = P
    if kind == "basic":
        zz, coord = 1, c.BASIC
    else:
        zz = z % p or 1
        coord = c.PROJC if kind == "projc" else c.EXTND
    X, Y = x * zz % p, y * zz % p
    if t_valid is None:
        t_valid = c.extnd
    t = (x * y % p * zz % p) if t_valid else _garbage(c.F.nbytes, tgarb)
    return enc_raw(c, X, Y, zz, t, coord)


def enc_poison(c, byte):
    """An ED slot whose every byte (coordinates and tag) is `byte`: a never-initialised output object."""
    n = 4 * c.F.nbytes + 4
    return struct.pack("<I", n) + bytes([byte & 0xFF]) * n


REC = lambda c: 4 * c.F.nbytes + 4


def dec_points(c, blob, what, check_t=False):
    n = REC(c)
    return [_dec_one(c, blob[i * n:(i + 1) * n], "%s[%d]" % (what, i), check_t) for i in range(len(blob) // n)]


def dec_point(c, blob, what, check_t=False):
    return _dec_one(c, blob[:REC(c)], what, check_t)


def _dec_one(c, b, what, check_t):
    """-> (affine point, meta). Raises Violation for a representation no routine may produce: non-canonical
    coordinate, Z = 0, unknown tag, and (check_t) T*Z != X*Y."""
    F = c.F
    p = c.p
    nb = F.nbytes
    vals = []
    coord = struct.unpack_from("<I", b, 4 * nb)[0]
    for i in range(3):
        v, raw = F.dec(b[i * nb:(i + 1) * nb])
        if v is None:
            if i == 2 and coord == c.BASIC:
                v = -1          # z of an affine-tagged point is not part of its value; callers check z == 1
            else:
                raise Violation("%s: coordinate %s not canonical (raw >= p)" % (what, "xyz"[i]), raw=raw)
        vals.append(v)
    x, y, z = vals
    t, traw = F.dec(b[3 * nb:4 * nb])
    meta = dict(coord=coord, x=x, y=y, z=z, t=t)
    if coord not in (c.BASIC, c.PROJC, c.EXTND):
        raise Violation("%s: unknown coordinate tag %#x" % (what, coord), meta=meta)
    if z == 0 and coord != c.BASIC:
        raise Violation("%s: Z = 0 (no such point on a complete Edwards curve)" % what, meta=meta)
    if coord == c.BASIC:
        # an affine-tagged point is (x, y); whether z == 1 holds is reported in meta["z"] for the caller
        P = (x, y)
        tz = 1
    else:
        zi = pow(z, -1, p)
        P = (x * zi % p, y * zi % p)
        tz = z
    if check_t:
        if t is None:
            raise Violation("%s: coordinate t not canonical (raw >= p)" % what, raw=traw)
        if (t * tz - x * y) % p != 0:
            raise Violation("%s: extended coordinate inconsistent (T*Z != X*Y)" % what, meta=meta)
    return P, meta


def small_multiple(c, m):
    """[m]G, cached."""
    m %= c.r
    if m not in c._small:
        if len(c._small) > 4000:
            c._small.clear()
        c._small[m] = c.E.mul(m, c.G)
    return c._small[m]

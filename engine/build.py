"""Build matrix: out-of-tree builds of /repo's *working tree* under /verif/.build/<cfg>.

Every check calls ensure(cfg) first; ninja's dependency tracking makes an
unchanged tree a no-op and an edited file an incremental rebuild.
"""
import fcntl
import glob
import hashlib
import json
import os
import shutil
import subprocess
import sys

VERIF = os.path.dirname(os.path.dirname(os.path.abspath(__file__)))
REPO = os.environ.get("VERIF_REPO", "/repo")
GUARD = "RELIC_VERIF"


def _root():
    base = os.path.join(VERIF, ".build")
    if os.path.realpath(REPO) != "/repo":
        tag = hashlib.sha1(os.path.realpath(REPO).encode()).hexdigest()[:10]
        base = os.path.join(VERIF, ".build-alt", tag)
    return base


SAN = "-fsanitize=address,undefined -fsanitize-recover=undefined"
COMMON = "-O1 -gline-tables-only -fno-omit-frame-pointer -Wno-error -D%s" % GUARD

BASE = dict(
    CC="clang",
    CFLAGS=COMMON + " " + SAN,
    LDFLAGS="-fsanitize=address,undefined",
    OPTS=dict(TESTS=0, BENCH=0, DOCUM="off", SHLIB="off", STLIB="on", TIMER="ANSI",
              SEED="UDEV", FP_PRIME=256, FB_POLYN=283, BN_PRECI=1024, WITH="ALL"),
)


def _cfg(**kw):
    c = dict(CC=BASE["CC"], CFLAGS=BASE["CFLAGS"], LDFLAGS=BASE["LDFLAGS"], OPTS=dict(BASE["OPTS"]),
             EXTRA_LINK="", RUNNER_CFLAGS="")
    for k, v in kw.items():
        if k == "OPTS":
            c["OPTS"].update(v)
        else:
            c[k] = v
    return c


BNONLY = dict(WITH="BN;DV;MD", ARCH="", FP_PRIME=256)

CONFIGS = {
    "base256": _cfg(),
    "base256-gcc": _cfg(CC="gcc", CFLAGS="-O2 -funroll-loops -fomit-frame-pointer -DNDEBUG -Wno-error -D" + GUARD,
                        LDFLAGS=""),
    "p255": _cfg(OPTS=dict(FP_PRIME=255)),
    "p255-extnd": _cfg(OPTS=dict(FP_PRIME=255, ED_METHD="EXTND;LWNAF;COMBS;INTER")),
    "p255-basic": _cfg(OPTS=dict(FP_PRIME=255, ED_METHD="BASIC;LWNAF;COMBS;INTER")),
    "p381": _cfg(OPTS=dict(FP_PRIME=381)),
    "p381-qnres": _cfg(OPTS=dict(FP_PRIME=381, FP_QNRES="on")),
    "w8": _cfg(OPTS=dict(WSIZE=8, BN_PRECI=128, **BNONLY)),
    "w16": _cfg(OPTS=dict(WSIZE=16, BN_PRECI=256, **BNONLY)),
    "w32": _cfg(OPTS=dict(WSIZE=32, BN_PRECI=512, **BNONLY)),
    "karat2": _cfg(OPTS=dict(BN_KARAT=2, FP_KARAT=2, FB_KARAT=2)),
    "magni-carry": _cfg(OPTS=dict(BN_MAGNI="CARRY")),
    "magni-single": _cfg(OPTS=dict(BN_MAGNI="SINGLE")),
    "fp-quick": _cfg(OPTS=dict(FP_PMERS="on", FP_METHD="INTEG;INTEG;INTEG;QUICK;JMPDS;JMPDS;SLIDE")),
    "fp-basic": _cfg(OPTS=dict(FP_METHD="BASIC;COMBA;COMBA;BASIC;JMPDS;JMPDS;SLIDE")),
    "ep-jacob": _cfg(OPTS=dict(EP_METHD="JACOB;LWNAF;COMBS;INTER;SSWUM")),
    "ep-basic": _cfg(OPTS=dict(EP_METHD="BASIC;LWNAF;COMBS;INTER;SSWUM", EB_METHD="BASIC;LWNAF;COMBS;INTER",
                               ED_METHD="BASIC;LWNAF;COMBS;INTER")),
    "ep-nomixed": _cfg(OPTS=dict(EP_MIXED="off", EB_MIXED="off")),
    "ep-noendom": _cfg(OPTS=dict(EP_ENDOM="off", EB_KBLTZ="off")),
    "ep-nopreco": _cfg(OPTS=dict(EP_PRECO="off", EB_PRECO="off", ED_PRECO="off")),
    "w2d2": _cfg(OPTS=dict(RLC_WIDTH=2, RLC_DEPTH=2)),
    "w6d8": _cfg(OPTS=dict(RLC_WIDTH=6, RLC_DEPTH=8)),
    "dyn": _cfg(OPTS=dict(ALLOC="DYNAMIC"),
                EXTRA_LINK="-Wl,--wrap=malloc,--wrap=calloc,--wrap=realloc,--wrap=posix_memalign,--wrap=free",
                RUNNER_CFLAGS="-DVS_WRAP_ALLOC"),
    "msan": _cfg(CFLAGS=COMMON + " -fsanitize=memory -fsanitize-memory-track-origins=1",
                 LDFLAGS="-fsanitize=memory"),
    "pth": _cfg(OPTS=dict(MULTI="PTHREAD", CORES=4)),
    "pth-tsan": _cfg(CFLAGS=COMMON + " -fsanitize=thread", LDFLAGS="-fsanitize=thread",
                     OPTS=dict(MULTI="PTHREAD", CORES=4)),
    "rsapd-pkcs1": _cfg(OPTS=dict(CP_RSAPD="PKCS1")),
    "rsapd-basic": _cfg(OPTS=dict(CP_RSAPD="BASIC")),
    "cp-nocrt": _cfg(OPTS=dict(CP_CRT="off")),
    # CMAKE_TRY_COMPILE_TARGET_TYPE: cmake's compiler check must not link an executable, the trace-pc hook
    # (__sanitizer_cov_trace_pc) is only defined in the runner
    "trace256": _cfg(CFLAGS=COMMON + " -fno-inline -fsanitize-coverage=trace-pc", LDFLAGS="",
                     OPTS=dict(CMAKE_TRY_COMPILE_TARGET_TYPE="STATIC_LIBRARY")),
    "trace255": _cfg(CFLAGS=COMMON + " -fno-inline -fsanitize-coverage=trace-pc", LDFLAGS="",
                     OPTS=dict(FP_PRIME=255, CMAKE_TRY_COMPILE_TARGET_TYPE="STATIC_LIBRARY")),
    "trace381": _cfg(CFLAGS=COMMON + " -fno-inline -fsanitize-coverage=trace-pc", LDFLAGS="",
                     OPTS=dict(FP_PRIME=381, CMAKE_TRY_COMPILE_TARGET_TYPE="STATIC_LIBRARY")),
    "fuzz256": _cfg(CFLAGS=COMMON + " " + SAN + " -fsanitize=fuzzer-no-link",
                    LDFLAGS="-fsanitize=address,undefined"),
}
# ep_map_rnd dispatches on the compile-time EP_MAP: the SwiftEC and try-and-increment entry points need own builds
CONFIGS["map-swift"] = _cfg(OPTS=dict(EP_METHD="PROJC;LWNAF;COMBS;INTER;SWIFT"))
CONFIGS["map-basic"] = _cfg(OPTS=dict(EP_METHD="PROJC;LWNAF;COMBS;INTER;BASIC"))
CONFIGS["p381-map-swift"] = _cfg(OPTS=dict(FP_PRIME=381, EP_METHD="PROJC;LWNAF;COMBS;INTER;SWIFT"))
for _m in ("SH224", "SH384", "SH512"):
    CONFIGS["md-" + _m.lower()] = _cfg(OPTS=dict(MD_METHD=_m))
# md_xmd (RFC 9380 expansion) is only defined for the SHA-2 family, so the hash-to-curve modules do not link with a
# BLAKE2s default hash: these two builds carry the integer, hash and block-cipher modules only
for _m in ("B2S160", "B2S256"):
    CONFIGS["md-" + _m.lower()] = _cfg(OPTS=dict(MD_METHD=_m, WITH="DV;BN;MD;BC"))
for _m in (163, 233, 409, 571):
    CONFIGS["fb-%d" % _m] = _cfg(OPTS=dict(FB_POLYN=_m))
for _b in (315, 317, 330, 354, 377, 382, 383, 446, 455, 508, 509, 510, 544, 569, 575, 638, 765, 766, 768):
    CONFIGS["pf-%d" % _b] = _cfg(OPTS=dict(FP_PRIME=_b, BN_PRECI=max(1024, 2 * _b + 64)))
# B48_P575 is only selectable with FP_QNRES=on and needs a larger precision (C11)
CONFIGS["pf-575-q"] = _cfg(OPTS=dict(FP_PRIME=575, BN_PRECI=4608, FP_QNRES="on"))
# BN_PRECI large enough for the twist cofactors of the 765 / 766-bit sets; B12_P638 needs FP_QNRES; a Jacobian
# twin of pf-315 (the homogeneous complete formulas reject invalid-curve points by accident) (C04 / C12 sweeps)
CONFIGS["pf-765-b"] = _cfg(OPTS=dict(FP_PRIME=765, BN_PRECI=3200))
CONFIGS["pf-766-b"] = _cfg(OPTS=dict(FP_PRIME=766, BN_PRECI=3200))
CONFIGS["pf-638-q"] = _cfg(OPTS=dict(FP_PRIME=638, BN_PRECI=2 * 638 + 64, FP_QNRES="on"))
CONFIGS["pf-315-jacob"] = _cfg(OPTS=dict(FP_PRIME=315, BN_PRECI=1024, EP_METHD="JACOB;LWNAF;COMBS;INTER;SSWUM"))
# extension-field method variants (C10)
CONFIGS["fpx-basic"] = _cfg(OPTS=dict(FPX_METHD="BASIC;BASIC;BASIC"))
CONFIGS["pf-508-epbasic"] = _cfg(OPTS=dict(FP_PRIME=508, BN_PRECI=2 * 508 + 64, EP_METHD="BASIC;LWNAF;COMBS;INTER;SSWUM"))
CONFIGS["pf-508-fpxbasic"] = _cfg(OPTS=dict(FP_PRIME=508, BN_PRECI=2 * 508 + 64, FPX_METHD="BASIC;BASIC;BASIC"))


class BuildError(Exception):
    pass


def bdir(cfg):
    return os.path.join(_root(), cfg)


def _run(cmd, cwd=None, env=None, log=None):
    p = subprocess.run(cmd, cwd=cwd, env=env, stdout=subprocess.PIPE, stderr=subprocess.STDOUT)
    if log:
        with open(log, "ab") as f:
            f.write(("$ %s\n" % " ".join(cmd)).encode())
            f.write(p.stdout)
    return p.returncode, p.stdout.decode(errors="replace")


def runner_sources():
    eng = os.path.join(VERIF, "engine")
    return sorted(glob.glob(os.path.join(eng, "shim", "*.c"))) + [os.path.join(eng, "runner.c")]


def ensure(cfg, runner=True, fuzz_targets=()):
    """Configure (if needed), build the library from REPO's working tree, link the runner.
    Returns the path of the runner binary (or the build dir if runner=False)."""
    c = CONFIGS[cfg]
    d = bdir(cfg)
    os.makedirs(d, exist_ok=True)
    lock = open(os.path.join(d, ".lock"), "w")
    fcntl.flock(lock, fcntl.LOCK_EX)
    try:
        log = os.path.join(d, "build.log")
        if os.path.exists(log) and os.path.getsize(log) > 4 << 20:
            os.remove(log)
        sig = json.dumps([c["CC"], c["CFLAGS"], c["LDFLAGS"], c["OPTS"], os.path.realpath(REPO)], sort_keys=True)
        sigf = os.path.join(d, ".cfgsig")
        lib = os.path.join(d, "lib")
        need_cfg = not os.path.exists(os.path.join(d, "build.ninja")) or \
            not os.path.exists(sigf) or open(sigf).read() != sig
        env = dict(os.environ)
        env["CC"] = c["CC"]
        env["CFLAGS"] = c["CFLAGS"]
        env["LDFLAGS"] = c["LDFLAGS"]
        env.pop("CXXFLAGS", None)
        if need_cfg:
            for f in ("CMakeCache.txt", "build.ninja"):
                p = os.path.join(d, f)
                if os.path.exists(p):
                    os.remove(p)
            shutil.rmtree(os.path.join(d, "CMakeFiles"), ignore_errors=True)
            cmd = ["cmake", "-G", "Ninja", "-S", REPO, "-B", d, "-DCMAKE_BUILD_TYPE=", "-DCMAKE_C_COMPILER=" + c["CC"]]
            for k, v in c["OPTS"].items():
                cmd.append("-D%s=%s" % (k, v))
            rc, out = _run(cmd, env=env, log=log)
            if rc != 0:
                raise BuildError("cmake configure failed for %s:\n%s" % (cfg, out[-3000:]))
            open(sigf, "w").write(sig)
        rc, out = _run(["cmake", "--build", d, "--", "-j16"], env=env, log=log)
        if rc != 0:
            raise BuildError("build failed for %s:\n%s" % (cfg, out[-4000:]))
        libs = glob.glob(os.path.join(lib, "librelic_s*.a"))
        if not libs:
            raise BuildError("no static library produced for %s" % cfg)
        if not runner:
            return d
        exe = os.path.join(d, "vs_runner")
        srcs = runner_sources()
        hdrs = glob.glob(os.path.join(VERIF, "engine", "shim", "*.h")) + \
            glob.glob(os.path.join(REPO, "include", "*.h")) + glob.glob(os.path.join(REPO, "include", "low", "*.h"))
        newest = max(os.path.getmtime(p) for p in srcs + hdrs + libs)
        incs = ["-I" + os.path.join(d, "include"), "-I" + os.path.join(REPO, "include"),
                "-I" + os.path.join(REPO, "include", "low"), "-I" + os.path.join(REPO, "src", "tmpl"),
                "-I" + os.path.join(VERIF, "engine", "shim")]
        if not os.path.exists(exe) or os.path.getmtime(exe) < newest:
            objs = []
            procs = []
            odir = os.path.join(d, "vs_obj")
            os.makedirs(odir, exist_ok=True)
            rflags = c["CFLAGS"].replace("-fsanitize-coverage=trace-pc", "").replace("-fsanitize=fuzzer-no-link", "")
            for s in srcs:
                o = os.path.join(odir, os.path.basename(s)[:-2] + ".o")
                objs.append(o)
                if os.path.exists(o) and os.path.getmtime(o) >= max(
                        [os.path.getmtime(s)] + [os.path.getmtime(h) for h in hdrs] +
                        [os.path.getmtime(os.path.join(d, "include", "relic_conf.h"))]):
                    continue
                cmd = [c["CC"]] + rflags.split() + c["RUNNER_CFLAGS"].split() + \
                    ["-D_GNU_SOURCE", "-Wno-unused-function", "-Wno-unused-variable", "-c", s, "-o", o] + incs
                procs.append((s, subprocess.Popen(cmd, stdout=subprocess.PIPE, stderr=subprocess.STDOUT)))
            for s, p in procs:
                out, _ = p.communicate()
                if p.returncode != 0:
                    raise BuildError("runner compile failed (%s, %s):\n%s" % (cfg, s, out.decode(errors="replace")[-4000:]))
            cmd = [c["CC"]] + objs + libs + c["LDFLAGS"].split() + c["EXTRA_LINK"].split() + \
                ["-lm", "-lpthread", "-o", exe + ".tmp"]
            rc, out = _run(cmd, log=log)
            if rc != 0:
                raise BuildError("runner link failed (%s):\n%s" % (cfg, out[-4000:]))
            os.replace(exe + ".tmp", exe)
        return exe
    finally:
        fcntl.flock(lock, fcntl.LOCK_UN)
        lock.close()


def ensure_fuzz(cfg, target):
    """Link a libFuzzer target engine/fuzz/<target>.c against cfg's library (built with fuzzer-no-link coverage)."""
    ensure(cfg, runner=False)
    d = bdir(cfg)
    lock = open(os.path.join(d, ".lock_fz"), "w")
    fcntl.flock(lock, fcntl.LOCK_EX)
    try:
        lib = glob.glob(os.path.join(d, "lib", "librelic_s*.a"))
        src = os.path.join(VERIF, "engine", "fuzz", target + ".c")
        exe = os.path.join(d, "fz_" + target)
        deps = [src] + lib + glob.glob(os.path.join(VERIF, "engine", "fuzz", "*.c"))
        if os.path.exists(exe) and os.path.getmtime(exe) >= max(os.path.getmtime(p) for p in deps):
            return exe
        incs = ["-I" + os.path.join(d, "include"), "-I" + os.path.join(REPO, "include"),
                "-I" + os.path.join(REPO, "include", "low"), "-I" + os.path.join(REPO, "src", "tmpl"),
                "-I" + os.path.join(VERIF, "engine", "shim"), "-I" + os.path.join(VERIF, "engine", "fuzz")]
        flags = (COMMON + " " + SAN + " -fsanitize=fuzzer").split()
        tmp = exe + ".tmp.%d" % os.getpid()
        cmd = ["clang"] + flags + ["-D_GNU_SOURCE", "-DVS_FUZZ", "-Wno-unused-function", src] + lib + incs + \
            ["-lm", "-lpthread", "-o", tmp]
        rc, out = _run(cmd, log=os.path.join(d, "build.log"))
        if rc != 0:
            raise BuildError("fuzz target link failed (%s/%s):\n%s" % (cfg, target, out[-4000:]))
        os.replace(tmp, exe)
        return exe
    finally:
        fcntl.flock(lock, fcntl.LOCK_UN)
        lock.close()


def conf_defines(cfg):
    """Parse relic_conf.h of a built configuration into a dict of #defines."""
    out = {}
    p = os.path.join(bdir(cfg), "include", "relic_conf.h")
    for line in open(p):
        line = line.strip()
        if line.startswith("#define "):
            parts = line.split(None, 2)
            out[parts[1]] = parts[2] if len(parts) > 2 else ""
    return out


if __name__ == "__main__":
    for name in sys.argv[1:]:
        try:
            print(name, ensure(name))
        except BuildError as e:
            print("BUILD ERROR", name, str(e)[:2000])
            sys.exit(2)

"""Predicates shared by all properties (matching sanitizer reports by source location)."""


def ub_at(case, v, entry):
    """UBSan report(s) all located at the file:line list of the entry."""
    ub = v.details.get("ub")
    if not ub:
        return False
    locs = entry.get("locations", [])
    return all(any(loc in u for loc in locs) for u in ub)


PREDICATES = {"ub_at": ub_at}

"""Integer generators (G-int, G-scalar of DESIGN §1.5). Construction, not rejection."""
from hypothesis import strategies as st


def uniform(lo, hi):
    """Uniform integer in [lo, hi]. st.integers() is heavily biased: 75 % of draws from [0, 2^256) are below 2^32, and
    a bounded draw inside a multi-draw composite returns its LOWER BOUND in ~30 % of the examples (measured: integers(0, 7)
    -> 0 in 32 %, integers(0, 255) -> 0 in 18 %), which silently turns every 'kind' selector into its first branch.
    st.sampled_from and fixed-size st.binary are unbiased (measured), so small ranges are sampled and wide ones are
    built from bytes."""
    span = hi - lo + 1
    if span <= 1:
        return st.just(lo)
    if span <= 4096:
        return st.sampled_from(range(lo, hi + 1))
    nb = (span.bit_length() + 7) // 8 + 8
    return st.binary(min_size=nb, max_size=nb).map(lambda b: lo + int.from_bytes(b, "little") % span)


_ORIG_INTEGERS = st.integers


def integers(min_value=None, max_value=None):
    """Drop-in for st.integers: bounded ranges are uniform (see uniform()); unbounded ones stay Hypothesis' own."""
    if min_value is None or max_value is None:
        return _ORIG_INTEGERS(min_value, max_value)
    if min_value > max_value:
        return _ORIG_INTEGERS(min_value, max_value)       # raises Hypothesis' own InvalidArgument
    return uniform(min_value, max_value)


def install():
    """Every strategy in props/ and engine/ spells bounded selector draws as st.integers(a, b): make that spelling
    unbiased everywhere (idempotent; called by engine.core before any property module is imported)."""
    import hypothesis.strategies as hs
    if hs.integers is not integers:
        hs.integers = integers
    # Hypothesis follows every generated example with 'mutations' (spans replaced by copies of other spans / the
    # pinned all-simplest example). Measured on three fixed-size st.binary draws: 33 % of all draws come back as the
    # all-zero string with the mutator, 1.7 % without; for the composite case strategies used here that meant 20-30 %
    # of the scalars were 0 and most late draws collapsed to their simplest value. Equal / aliased operands are
    # constructed explicitly by the strategies, so the mutator is switched off (generation stays Hypothesis' own
    # novel-prefix search, shrinking is untouched).
    try:
        import hypothesis.internal.conjecture.engine as _eng
        if getattr(_eng.ConjectureRunner, "generate_mutations_from", None) is not None:
            _eng.ConjectureRunner.generate_mutations_from = lambda self, data: None
    except Exception:      # a different Hypothesis layout: keep its default behaviour
        pass


def digit(W):
    B = 1 << W
    special = [0, 1, 2, 3, B - 1, B - 2, B >> 1, (B >> 1) - 1, (B >> 1) + 1, (1 << (W // 2)), (1 << (W // 2)) - 1,
               (1 << (W // 2)) + 1, int("55" * (W // 8), 16), int("AA" * (W // 8), 16)]
    return st.one_of(st.sampled_from(special), uniform(0, B - 1))


def lengths(maxd):
    c = sorted({x for x in (0, 1, 2, 3, maxd // 2, maxd - 1, maxd) if 0 <= x <= maxd})
    return st.one_of(st.sampled_from(c), st.integers(0, maxd))


@st.composite
def magnitude(draw, W, maxd):
    """Non-negative integer of at most maxd W-bit digits with structured digit patterns."""
    if maxd <= 0:
        return 0
    kind = draw(st.integers(0, 5))
    top = 1 << (W * maxd)
    if kind == 0:
        n = draw(lengths(maxd))
        return draw(uniform(0, (1 << (W * n)) - 1)) if n else 0
    if kind == 1:
        k = draw(st.integers(0, W * maxd - 1))
        d = draw(st.sampled_from([-2, -1, 0, 1, 2]))
        v = (1 << k) + d
        return max(0, min(v, top - 1))
    if kind == 2:
        # a run of identical digits with a different first / last digit
        n = draw(lengths(maxd))
        if n == 0:
            return 0
        fill = draw(st.sampled_from([0, (1 << W) - 1, 1 << (W - 1), 1]))
        ds = [fill] * n
        ds[0] = draw(digit(W))
        ds[-1] = draw(digit(W))
        return sum(d << (W * i) for i, d in enumerate(ds))
    n = draw(lengths(maxd))
    ds = [draw(digit(W)) for _ in range(n)]
    return sum(d << (W * i) for i, d in enumerate(ds))


@st.composite
def g_int(draw, W, maxd, signed=True):
    m = draw(magnitude(W, maxd))
    if signed and m and draw(st.booleans()):
        return -m
    return m


def ndigits(x, W):
    return (abs(x).bit_length() + W - 1) // W


@st.composite
def related(draw, b, W, maxd):
    """An operand derived from b: equal, negated, off by one, multiple plus boundary remainder."""
    kind = draw(st.integers(0, 6))
    top = (1 << (W * maxd)) - 1
    if kind == 0:
        v = b
    elif kind == 1:
        v = -b
    elif kind == 2:
        v = b + draw(st.sampled_from([-1, 1]))
    elif kind == 3:
        v = abs(b) - 1
    else:
        room = maxd - ndigits(b, W)
        q = draw(g_int(W, max(0, room)))
        r = draw(st.sampled_from([0, 1, abs(b) - 1, abs(b) // 2])) if b else 0
        v = q * b + (r if r >= 0 else 0)
    if abs(v) > top:
        v = (abs(v) & top) * (1 if v > 0 else -1)
    return v


@st.composite
def division_pair(draw, W, maxa, maxb):
    """(a, b) with b != 0 aimed at the quotient-estimate / add-back branches of Knuth D."""
    B = 1 << W
    kind = draw(st.integers(0, 6))
    if kind <= 1:
        b = draw(g_int(W, maxb))
        a = draw(g_int(W, maxa))
    elif kind == 2:
        b = draw(g_int(W, maxb))
        a = draw(related(b, W, maxa))
    elif kind == 3:
        # backwards from (q, b, r)
        b = draw(g_int(W, maxb))
        nb = ndigits(b, W)
        q = draw(g_int(W, max(0, maxa - nb)))
        r = draw(st.one_of(st.sampled_from([0, 1, max(0, abs(b) - 1)]), uniform(0, max(0, abs(b) - 1))))
        a = q * b + (r if b > 0 else -r)
    elif kind == 4:
        # Knuth add-back family: divisor top digit B/2 (already normalised) followed by B-1 digits,
        # dividend top digits chosen so that the estimate overshoots
        nb = draw(st.integers(2, max(2, maxb)))
        na = draw(st.integers(nb, max(nb, maxa)))
        bd = [B - 1] * nb
        bd[-1] = draw(st.sampled_from([B >> 1, (B >> 1) + 1, B - 1, 1, draw(uniform(1, B - 1))]))
        bd[0] = draw(digit(W))
        ad = [draw(st.sampled_from([0, B - 1, 1])) for _ in range(na)]
        ad[-1] = draw(st.sampled_from([bd[-1], bd[-1] - 1, B - 1, max(1, bd[-1] >> 1)])) or 1
        if na >= 2:
            ad[-2] = draw(st.sampled_from([0, B - 1, bd[-2], max(0, bd[-2] - 1)]))
        b = sum(d << (W * i) for i, d in enumerate(bd))
        a = sum(d << (W * i) for i, d in enumerate(ad))
        if draw(st.booleans()):
            a = -a
        if draw(st.booleans()):
            b = -b
    elif kind == 5:
        # top digit of the running remainder equals top digit of the divisor (q-hat = B-1 branch)
        nb = draw(st.integers(2, max(2, maxb)))
        t = draw(uniform(1, B - 1))
        rest_b = draw(uniform(0, (1 << (W * (nb - 1))) - 1))
        b = (t << (W * (nb - 1))) | rest_b
        na = draw(st.integers(nb, max(nb, maxa)))
        rest_a = draw(uniform(0, (1 << (W * (na - 1))) - 1))
        a = (t << (W * (na - 1))) | rest_a
        if draw(st.booleans()):
            a = -a
        if draw(st.booleans()):
            b = -b
    else:
        b = draw(st.sampled_from([1, -1, 2, -2, B - 1, B, B + 1, -(B - 1)]))
        a = draw(g_int(W, maxa))
    if b == 0:
        b = draw(st.sampled_from([1, -1, B - 1, -(B >> 1)]))
    top = (1 << (W * maxa)) - 1
    if abs(a) > top:
        a = (abs(a) & top) * (1 if a > 0 else -1)
    return a, b


def knuth_d_addback_count(a, b, W):
    """Replay Knuth's algorithm D on (|a|, |b|) and count quotient digits whose estimate was corrected
    (by the 3-by-2 test) and the number of add-back steps. Used only to classify cases."""
    a, b = abs(a), abs(b)
    B = 1 << W
    n = ndigits(b, W)
    if n < 2 or a < b:
        return 0, 0
    s = W - 1 - ((b >> (W * (n - 1))).bit_length() - 1)
    a <<= s
    b <<= s
    m = ndigits(a, W) - n
    vd = [(b >> (W * i)) & (B - 1) for i in range(n)]
    ud = [(a >> (W * i)) & (B - 1) for i in range(n + m + 1)]
    corrected = addback = 0
    for j in range(m, -1, -1):
        num = ud[j + n] * B + ud[j + n - 1]
        qh, rh = divmod(num, vd[n - 1])
        c = 0
        while qh >= B or qh * vd[n - 2] > B * rh + ud[j + n - 2]:
            qh -= 1
            rh += vd[n - 1]
            c = 1
            if rh >= B:
                break
        corrected += c
        # multiply and subtract
        cur = sum(ud[j + i] << (W * i) for i in range(n + 1))
        cur -= qh * b
        if cur < 0:
            addback += 1
            cur += b
        for i in range(n + 1):
            ud[j + i] = (cur >> (W * i)) & (B - 1)
    return corrected, addback


def scalar(n, maxbits, lam=None):
    """G-scalar: integers around the group order n and up to maxbits bits."""
    nb = n.bit_length()
    special = [0, 1, -1, 2, -2, 3, n - 1, n, n + 1, 2 * n, 2 * n - 1, 2 * n + 1, -n, -(n - 1), -(n + 1), n // 2, n // 2 + 1,
               (1 << nb) - 1, 1 << (nb - 1), 1 << nb, (1 << (nb - 1)) - 1, int("A" * ((nb + 3) // 4), 16) % n,
               int("5" * ((nb + 3) // 4), 16) % n]
    if lam:
        special += [lam, n - lam, lam + 1, lam - 1, (lam * lam) % n]
    special = [s for s in special if abs(s).bit_length() <= maxbits]

    @st.composite
    def strat(draw):
        kind = draw(st.integers(0, 7))
        if kind <= 1:
            return draw(st.sampled_from(special))
        if kind == 2:
            return draw(uniform(0, n - 1))
        if kind == 3:
            return -draw(uniform(0, n - 1))
        if kind == 4:
            i = draw(st.integers(0, maxbits - 1))
            return (1 << i) - draw(st.sampled_from([0, 1]))
        if kind == 5:
            # sparse or long runs
            bits = draw(st.integers(1, min(maxbits, nb + 8)))
            v = 0
            for _ in range(draw(st.integers(1, 4))):
                lo = draw(st.integers(0, bits - 1))
                ln = draw(st.integers(1, bits - lo))
                v ^= ((1 << ln) - 1) << lo
            return v
        if kind == 6:
            j = draw(st.integers(0, 5))
            d = draw(st.sampled_from([-1, 0, 1]))
            v = j * n + d
            return v if abs(v).bit_length() <= maxbits else n
        bits = draw(st.sampled_from(sorted({1, 8, 63, 64, 65, nb - 1, nb, min(nb + 1, maxbits), maxbits})))
        v = draw(uniform(0, (1 << bits) - 1))
        return -v if draw(st.integers(0, 3)) == 0 else v

    return strat()

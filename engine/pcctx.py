"""Pairing contexts: for every pairing-friendly curve selectable in a build, the reference tower, the twist curve
over the extension field, generators, group order; G2 / GT transport."""
import struct

from . import ecctx
from .core import Unsupported, Violation
from .proto import Prog
from .ref import ec as rec
from .ref import ext as rext

_CACHE = {}
DTYPE, MTYPE = 1, 2


class PairCtx:
    pass


def _fp_list(F, blob):
    nb = F.nbytes
    out = []
    for i in range(len(blob) // nb):
        v, raw = F.dec(blob[i * nb:(i + 1) * nb])
        out.append(v)
    return out


def discover(env, cfg):
    if cfg in _CACHE:
        return _CACHE[cfg]
    base = ecctx.discover(env, cfg)
    r = env.runner(cfg)
    if "pc_map" not in r.ops() or "ep2_curve_set_twist" not in r.ops():
        raise Unsupported()
    inf = r.info("info_pc")
    k, g2deg = inf[0], inf[1]
    out = []
    notes = []
    for c in base["curves"]:
        if not c.is_pairf:
            continue
        if k != 12 or g2deg != 2:
            notes.append("cid %d: embedding degree %d / G2 degree %d not modelled by pcctx" % (c.cid, k, g2deg))
            continue
        F = c.F
        chosen = None
        for ttype in (DTYPE, MTYPE):
            p = Prog()
            p.call("ep_param_set", c.cid)
            p.call("ep2_curve_set_twist", ttype)
            sn, sh = p.bn(0), p.bn(0)
            sg = p.new("EP2", bytes([2]) + struct.pack("<I", 6 * F.nbytes + 1) + bytes(6 * F.nbytes) + b"\x01")
            p.call("ep2_curve_params", sn, sh, sg)
            p.call("tower_params")
            sgt = p.new("FPX", bytes([12]) + struct.pack("<I", 12 * F.nbytes) + bytes(12 * F.nbytes))
            p.call("gt_get_gen", sgt)
            p.dump(sn), p.dump(sh), p.dump(sg), p.dump(sgt)
            res = r.run(p)
            ecctx.invalidate(env, cfg)
            if any(cl.errored for cl in res.calls):
                notes.append("cid %d type %d: selection reported an error" % (c.cid, ttype))
                continue
            tp = res.calls[3]
            qnr, cnr = tp.ret_i(0), tp.ret_i(1)
            E2 = tuple(_fp_list(F, tp.blobs[0]))
            T = rext.build_tower(F.p, qnr if qnr else None, None, E2)
            F2 = T[2]
            cp = res.calls[2]
            a2 = tuple(_fp_list(F, cp.blobs[0]))
            b2 = tuple(_fp_list(F, cp.blobs[1]))
            # consistency of the declared twist type with b' and the sextic non-residue (reference side)
            bb = F2.from_int(c.b)
            want = F2.mul(bb, F2.inv(E2)) if ttype == DTYPE else F2.mul(bb, E2)
            if not (F2.eq(b2, want) and F2.is_zero(a2) and c.a == 0):
                continue
            x = PairCtx()
            x.base, x.cid, x.ttype, x.F, x.T, x.F2, x.F12 = c, c.cid, ttype, F, T, F2, T[12]
            x.a2, x.b2, x.E2, x.qnr = a2, b2, E2, qnr
            x.E2c = rec.Curve(F2, a2, b2)
            x.r = res.dumps[sn].value
            x.h2 = res.dumps[sh].value
            x.n1 = c.n
            G2, _ = dec_point2(x, res.dumps[sg], "G2 generator")
            x.G2 = G2
            x.G1 = c.G
            if G2 is None or not x.E2c.on_curve(G2) or x.E2c.mul(x.r, G2) is not None or x.r != c.n:
                raise Violation("pairing set %d: twist generator / order inconsistent (reference check)" % c.cid)
            x.gt_gen = T[12].unflatten(_fp_list(F, res.dumps[sgt]))
            x._small2 = {}
            chosen = x
            break
        if chosen is None:
            notes.append("cid %d: no twist type consistent with b' = b/E or b*E -> not selectable through the public API" % c.cid)
        else:
            out.append(chosen)
    _CACHE[cfg] = dict(ctxs=out, notes=notes, cur=None, k=k)
    return _CACHE[cfg]


def job_ctx(env, cfg):
    cs = discover(env, cfg)["ctxs"]
    if not cs:
        raise Unsupported()
    return cs[env.job_seed % len(cs)]


def ctx_for(env, cfg, cid):
    for x in discover(env, cfg)["ctxs"]:
        if x.cid == cid:
            return x
    raise Unsupported()


def select(env, cfg, prog, x):
    d = discover(env, cfg)
    r = env.runner(cfg)
    key = r.epoch()
    if d["cur"] != (key, x.cid):
        prog.call("ep_param_set", x.cid)
        prog.call("ep2_curve_set_twist", x.ttype)
        d["cur"] = (key, x.cid)
        ecctx.invalidate(env, cfg)
        return 2
    return 0


def run(env, cfg, x, builder, poison, seed=b""):
    p = Prog(poison=poison, seed=seed)
    skip = select(env, cfg, p, x)
    meta = builder(p)
    try:
        res = env.runner(cfg).run(p)
    except Exception:
        discover(env, cfg)["cur"] = None
        raise
    if res.failed_new:
        raise Unsupported()
    res.calls = res.calls[skip:]
    return res, meta


# ------------------------------------------------------------------------------------ transport

def enc_fp2(x, a):
    F = x.F
    return b"".join(F.to_raw_int(v).to_bytes(F.nbytes, "little") for v in a)


def enc_point2(x, P, rep="basic", z=(1, 0), infty_style=0):
    F2 = x.F2
    b = x.base
    if F2.is_zero(z):
        z = F2.one
    if P is None:
        if infty_style == 0:
            X, Y, Z, coord = F2.zero, F2.zero, F2.zero, b.BASIC
        elif rep == "projc":
            X, Y, Z, coord = F2.zero, z, F2.zero, b.PROJC
        else:
            X, Y, Z, coord = z, z, F2.zero, b.JACOB
    elif rep == "basic":
        X, Y, Z, coord = P[0], P[1], F2.one, b.BASIC
    elif rep == "projc":
        X, Y, Z, coord = F2.mul(P[0], z), F2.mul(P[1], z), z, b.PROJC
    else:
        z2 = F2.mul(z, z)
        X, Y, Z, coord = F2.mul(P[0], z2), F2.mul(P[1], F2.mul(z2, z)), z, b.JACOB
    body = enc_fp2(x, X) + enc_fp2(x, Y) + enc_fp2(x, Z) + bytes([coord])
    return bytes([2]) + struct.pack("<I", len(body)) + body


def dec_points2(x, blob, what):
    F, F2, b = x.F, x.F2, x.base
    nb = F.nbytes
    reclen = 6 * nb + 1 + 4
    out = []
    for i in range(len(blob) // reclen):
        rec_ = blob[i * reclen:(i + 1) * reclen]
        vals = []
        for j in range(6):
            v, raw = F.dec(rec_[j * nb:(j + 1) * nb])
            if v is None:
                raise Violation("%s: coordinate digit vector not canonical (raw >= p)" % what, raw=raw)
            vals.append(v)
        X, Y, Z = (vals[0], vals[1]), (vals[2], vals[3]), (vals[4], vals[5])
        coord = struct.unpack_from("<I", rec_, 6 * nb + 1)[0]
        meta = dict(coord=coord, z=Z)
        if F2.is_zero(Z):
            out.append((None, meta))
            continue
        if coord == b.BASIC:
            if Z != F2.one:
                raise Violation("%s: point tagged affine but z != 1" % what, z=Z)
            out.append(((X, Y), meta))
            continue
        zi = F2.inv(Z)
        if coord == b.PROJC:
            out.append(((F2.mul(X, zi), F2.mul(Y, zi)), meta))
        elif coord == b.JACOB:
            zi2 = F2.mul(zi, zi)
            out.append(((F2.mul(X, zi2), F2.mul(Y, F2.mul(zi2, zi))), meta))
        else:
            raise Violation("%s: unknown coordinate tag %d" % (what, coord))
    return out


def dec_point2(x, blob, what):
    return dec_points2(x, blob[:6 * x.F.nbytes + 5], what)[0]


def enc_gt(x, a):
    F = x.F
    body = b"".join(F.to_raw_int(v).to_bytes(F.nbytes, "little") for v in x.F12.flatten(a))
    return bytes([12]) + struct.pack("<I", len(body)) + body


def dec_gt(x, blob, what):
    F = x.F
    nb = F.nbytes
    vals = []
    for j in range(12):
        v, raw = F.dec(blob[j * nb:(j + 1) * nb])
        if v is None:
            raise Violation("%s: GT coefficient not canonical (raw >= p)" % what, raw=raw)
        vals.append(v)
    return x.F12.unflatten(vals)


def small_multiple2(x, m):
    m %= x.r
    if m == 0:
        return None
    if m not in x._small2:
        if len(x._small2) > 3000:
            x._small2.clear()
        x._small2[m] = x.E2c.mul(m, x.G2)
    return x._small2[m]

/* Runner process: length-prefixed requests on stdin, replies on stdout. One request = one case. */
#include "vs.h"
#include <unistd.h>
#include <errno.h>

static int read_full(int fd, void *buf, size_t n) {
	uint8_t *p = (uint8_t *)buf;
	while (n > 0) {
		ssize_t k = read(fd, p, n);
		if (k == 0) return -1;
		if (k < 0) { if (errno == EINTR) continue; return -1; }
		p += k; n -= (size_t)k;
	}
	return 0;
}
static int write_full(int fd, const void *buf, size_t n) {
	const uint8_t *p = (const uint8_t *)buf;
	while (n > 0) {
		ssize_t k = write(fd, p, n);
		if (k < 0) { if (errno == EINTR) continue; return -1; }
		p += k; n -= (size_t)k;
	}
	return 0;
}

int main(void) {
	vs_init();
	uint8_t *req = NULL;
	size_t cap = 0;
	vs_wr out = { 0 };
	for (;;) {
		uint32_t len;
		if (read_full(0, &len, 4) != 0) break;
		if (len > (64u << 20)) return 3;
		if (len > cap) { cap = len * 2 + 64; req = (uint8_t *)realloc(req, cap); if (!req) return 3; }
		if (read_full(0, req, len) != 0) break;
		out.len = 0;
		vs_exec(req, len, &out);
		uint32_t ol = (uint32_t)out.len;
		if (write_full(1, &ol, 4) != 0 || write_full(1, out.buf, out.len) != 0) break;
	}
	return 0;
}
